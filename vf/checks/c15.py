"""C15  Isolating external calls in the co-process does not change program behaviour.

(a) codec, in-process on the asan+ubsan tree (vf/probes/cop_probe.c): every value of the
    transferable-type grammar below a bound (boundary ints / opaque handles, float bit patterns
    incl. NaN payloads, bools, void, strings of boundary lengths x 5 content classes, arrays of every
    element kind of length 0-3 over small pools, nested arrays to depth 2 (thorough: 3), long arrays
    straddling the 4 KiB / 8 KiB buffers) -- deserialize(serialize(v)) == v bit for bit, serialize into
    every smaller exact-size buffer is refused, deserialize of every strict prefix is refused, plus
    bare headers of values longer than the buffer (declared lengths up to 2^32-1).
(b) end to end on the plain tree: every builtin that codegen.c lowers to OP_CALL_EXTERN (list derived
    from the source and checked against each compiled module's import table) x its argument boundary
    pool x 3 call shapes (once / loop of 3 / nested as the argument of another extern call), plus
    user-declared `extern fn`s that hand every transferable type through the FFI unchanged (ints,
    opaque handles incl. real pointers, floats, bools, void, strings up to 70000 bytes (thorough: 1 MiB
    boundary), int/float/bool/string arrays, nested and empty arrays).  Each generated program is
    compiled once and run as `nano_vm f` and `nano_vm --isolate-ffi f`; stdout bytes and exit status
    must agree.  A wrapper `nano_cop` first on PATH proves that the isolated run really used the
    co-process and that the in-process run did not.
"""
import itertools
import os
import re
import shutil

from .. import common

# --------------------------------------------------------------------------- pools
I64MAX, I64MIN = 2**63 - 1, -2**63
B_INT = [0, 1, -1, 2, -2, 127, 128, 255, 256, 2**31 - 1, 2**31, 2**32, -2**31, I64MAX, I64MAX - 1, I64MIN, I64MIN + 1]
CHARS = [9, 10, 13, 32, 47, 48, 57, 58, 64, 65, 90, 91, 96, 97, 122, 123]
F64_BITS = [0x0000000000000000, 0x8000000000000000, 0x7FF0000000000000, 0xFFF0000000000000,      # +-0, +-inf
            0x7FF8000000000000, 0x7FF8000000000001, 0x7FF0000000000001, 0xFFF8DEADBEEF0001,      # quiet / signalling NaNs with payloads
            0x0000000000000001, 0x000FFFFFFFFFFFFF, 0x0010000000000000, 0x7FEFFFFFFFFFFFFF,      # denormal min/max, DBL_MIN, DBL_MAX
            0x3FF0000000000000, 0xBFF8000000000000, 0x400921FB54442D18]                          # 1.0, -1.5, pi
STR_LENS = [0, 1, 2, 255, 256, 4095, 4096] + list(range(8179, 8194)) + [65535, 65536, 70000]
STR_LENS_E2E = [0, 1, 2, 255, 256, 4091, 4092, 4095, 4096] + list(range(8179, 8194)) + [65535, 65536, 70000]
TAG = {"void": 0, "int": 1, "float": 3, "bool": 4, "string": 5, "array": 7, "opaque": 14}
SAN_OPTS = "detect_leaks=0:allocator_may_return_null=1:max_allocation_size_mb=1024:handle_abort=1"


# =========================================================================== (a) codec
def codec_specs(tier):
    """Returns list of (spec line, human description)."""
    out = []
    for v in B_INT:
        out.append(("i%d" % v, "int %d" % v))
        out.append(("o%d" % v, "opaque handle %d" % v))
    for b in F64_BITS:
        out.append(("f%016x" % b, "float bits %016x" % b))
    out += [("b0", "false"), ("b1", "true"), ("v", "void")]
    lens = list(STR_LENS)
    if tier == "thorough":
        lens = sorted(set(lens + list(range(4086, 4100)) + list(range(8170, 8200)) + [65530, 65531, 65532, 65533, 65534, 65537, 2**20 - 6, 2**20 - 5, 2**20 - 4, 2**20]))
    for n in lens:
        for cls in range(5):
            if n >= 2**20 - 16 and cls not in (1, 4):
                continue
            out.append(("s%d:%d" % (cls, n), "string of %d bytes, content class %d" % (n, cls)))
    pools = [
        (TAG["int"], ["i0", "i-1", "i%d" % I64MIN, "i%d" % I64MAX, "i4294967296"]),
        (TAG["float"], ["f8000000000000000", "f7ff8000000000001", "f7ff0000000000000", "fbff8000000000000"]),
        (TAG["bool"], ["b0", "b1"]),
        (TAG["string"], ["s0:0", "s0:1", "s2:9", "s4:256"]),
        (TAG["opaque"], ["o0", "o4294967297", "o-1"]),
        (TAG["void"], ["v", "i7"]),           # untyped array (elem_type 0) holding void / int elements
    ]
    for et, pool in pools:
        for ln in range(0, 4):
            for combo in itertools.product(pool, repeat=ln):
                out.append(("A%d[%s]" % (et, ",".join(combo)), "array elem_type=%d of %d element(s)" % (et, ln)))
    inner = ["A1[]", "A1[i1]", "A1[i-1,i%d]" % I64MIN, "A5[]", "A5[s0:0,s0:2]", "A3[f3ff0000000000000,f7ff8000000000001]"]
    for ln in range(0, 4):
        for combo in itertools.product(inner, repeat=ln):
            out.append(("A7[%s]" % ",".join(combo), "nested array (depth 2) of %d inner array(s)" % ln))
    d2 = ["A7[]", "A7[A1[]]", "A7[A1[i1],A5[]]", "A7[A5[s0:0],A1[],A1[i-1]]"]
    for ln in range(0, 3 if tier == "quick" else 4):
        for combo in itertools.product(d2, repeat=ln):
            if ln:
                out.append(("A7[%s]" % ",".join(combo), "nested array (depth 3) of %d depth-2 array(s)" % ln))
    longs = [("i", [4, 454, 455, 456, 908, 909, 910, 1000]), ("f", [455, 910]), ("b", [2045, 2046, 4093, 4094]), ("s", [200])]
    if tier == "thorough":
        longs += [("i", [7281, 7282, 116508, 116509]), ("s", [2000])]
    for kind, ns in longs:
        for n in ns:
            out.append(("L%s:%d" % (kind, n), "array of %d %s elements cycling through the boundary pool" % (n, kind)))
    # bare headers: strict prefixes of encodings of values longer than the buffer
    def le32(x):
        return "%02x%02x%02x%02x" % (x & 255, (x >> 8) & 255, (x >> 16) & 255, (x >> 24) & 255)
    for ln in [1, 2, 17, 2**16, 2**24, 2**24 + 1, 2**31 - 1, 2**31, 2**32 - 6, 2**32 - 5, 2**32 - 4, 2**32 - 1]:
        for have in (0, 1, 16):
            if have < ln:
                out.append(("X05" + le32(ln) + "61" * have, "header of a %d-byte string followed by %d content byte(s)" % (ln, have)))
    one_int = "01" + "07" + "00" * 7
    for cnt in [1, 2, 3, 2**16, 2**26, 2**28, 2**31, 2**32 - 1]:
        for have in (0, 1, 2):
            if have < cnt:
                out.append(("X0701" + le32(cnt) + one_int * have, "header of a %d-element int array followed by %d element(s)" % (cnt, have)))
    for cnt in [2**28, 2**32 - 1]:
        out.append(("X0707" + le32(1) + "0701" + le32(cnt) + one_int, "array holding an inner array header of %d elements followed by 1 element" % cnt))
        out.append(("X0705" + le32(2) + "05" + le32(1) + "61" + "05" + le32(cnt) + "6162", "string array whose second string declares %d bytes" % cnt))
    return out


def _codec_chunk(args):
    probe, specfile, lo, hi = args
    rc, out, err = common.run([probe, "codec", specfile, str(lo), str(hi)], timeout=3600, envx={"ASAN_OPTIONS": SAN_OPTS})
    return (lo, hi, rc, out.decode(errors="replace"), err.decode(errors="replace")[-4000:])


def _san_signature(err):
    kind, frame = "no-sanitizer-report", "?"
    m = re.search(r"ERROR: AddressSanitizer: ([A-Za-z0-9_-]+)", err)
    if m:
        kind = m.group(1)
    else:
        m = re.search(r"runtime error: ([^\n]*)", err)
        if m:
            kind = "ubsan:" + re.sub(r"-?\d[\d.e+]*", "N", m.group(1)).strip()[:70]
    for fm in re.finditer(r"#\d+ 0x[0-9a-f]+ in (\S+) [^\n]*?/src/([^\s:]+):(\d+)", err):
        frame = "%s(%s)" % (fm.group(1), os.path.basename(fm.group(2)))
        break
    if frame == "?":
        m = re.search(r"src/(\S+?):(\d+):\d+: runtime error", err)
        if m:
            frame = "%s:%s" % (os.path.basename(m.group(1)), m.group(2))
    return kind, frame


def run_codec(rep, tree, probe, work, tier):
    specs = codec_specs(tier)
    specfile = os.path.join(work, "codec_specs.txt")
    with open(specfile, "w") as f:
        f.write("".join(s + "\n" for s, _d in specs))
    n = len(specs)
    step = 20
    jobs = [(probe, specfile, lo, min(n, lo + step)) for lo in range(0, n, step)]
    agg = {}
    fails = []
    for lo, hi, rc, out, err in common.pimap(_codec_chunk, jobs):
        stat = [l for l in out.splitlines() if l.startswith("STAT")]
        if rc != 0 or not stat:
            raise common.HarnessError("cop_probe codec [%d,%d) failed rc=%s: %s" % (lo, hi, rc, err[-1500:]))
        for kv in stat[0].split()[1:]:
            k, v = kv.split("=")
            agg[k] = agg.get(k, 0) + int(v)
        fails += [l for l in out.splitlines() if l.startswith("FAIL")]
    if agg.get("values", 0) + agg.get("raw", 0) != n:
        raise common.HarnessError("codec: %d specs but %d evaluated" % (n, agg.get("values", 0) + agg.get("raw", 0)))
    groups = {}
    for l in fails:
        idx = int(re.search(r"idx=(\d+)", l).group(1))
        cls = l.split()[1]
        if cls in ("bad-spec", "spec-too-big"):
            raise common.HarnessError("codec spec rejected by the probe: %s (%s)" % (specs[idx][0][:80], l))
        detail = ""
        if cls == "crash":
            sigs = []
            report = ""
            for _ in range(2):
                rc, o, e = common.run([probe, "codec", specfile, str(idx), str(idx + 1)], timeout=3600, envx={"ASAN_OPTIONS": SAN_OPTS})
                e = e.decode(errors="replace")
                crashed = any(x.startswith("FAIL crash") for x in o.decode(errors="replace").splitlines())
                sigs.append((crashed,) + _san_signature(e))
                report = e
            if sigs[0] != sigs[1]:
                raise common.HarnessError("codec crash on %s does not replay deterministically: %s" % (specs[idx][0][:80], sigs))
            if not sigs[0][0]:
                rep.count("codec_nonreproducible")
                continue
            key = ("crash", sigs[0][1], sigs[0][2])
            detail = report[-5000:]
        elif cls == "roundtrip":
            key = (cls, re.sub(r"-?\d+|[0-9a-f]{16}", "N", l.split(" : ")[-1])[:60])
        else:
            key = (cls,)
        groups.setdefault(key, []).append((idx, l, detail))
    for key, items in sorted(groups.items(), key=lambda kv: str(kv[0])):
        items.sort(key=lambda it: (len(specs[it[0]][0]), it[0]))
        idx, l, detail = items[0]
        what = {"crash": "memory-safety / undefined-behaviour report (%s)" % " in ".join(key[1:]),
                "roundtrip": "deserialize(serialize(v)) != v",
                "serialize-small": "serialize into a too-small buffer did not fail",
                "prefix-accepted": "a strict prefix of a valid encoding was accepted",
                "truncated-accepted": "a truncated encoding was accepted",
                "serialize-refused": "serialize into a large enough buffer failed",
                "serialize-exact": "serialize into an exact-size buffer failed or differs",
                "deserialize-consumed": "deserialize consumed the wrong number of bytes",
                "reserialize": "serialize(deserialize(bytes)) != bytes"}.get(key[0], key[0])
        summary = "codec: %s; minimal input: %s [%s]  (%d input(s)); %s" % (what, specs[idx][1], specs[idx][0][:100], len(items), l)
        rep.violation("codec:" + str(key), {"spec.txt": specs[idx][0] + "\n",
                                            "cases.txt": "".join("%s | %s | %s\n" % (specs[i][0][:200], specs[i][1], ll) for i, ll, _d in items[:300]),
                                            "sanitizer_report.txt": detail},
                      summary, "cd %s && ./check C15 --replay $(dirname $0)" % common.VERIF)
    rep.count("states", n)
    rep.count("transitions", agg.get("serialize_calls", 0) + agg.get("deserialize_calls", 0))
    rep.count("traces_validated_against_impl", agg.get("values", 0) + agg.get("raw", 0))
    rep.coverage.update({"codec_values": agg.get("values", 0), "codec_truncated_headers": agg.get("raw", 0),
                         "codec_serialize_calls": agg.get("serialize_calls", 0), "codec_deserialize_calls": agg.get("deserialize_calls", 0),
                         "codec_too_small_buffers": agg.get("small_buffers", 0), "codec_strict_prefixes": agg.get("prefixes", 0), "codec_values_with_thinned_sweeps": agg.get("thinned", 0),
                         "codec_failures": len(fails)})
    rep.sample({"codec_value": specs[5][1], "spec": specs[5][0]})
    rep.sample({"codec_value": specs[len(specs) // 2][1], "spec": specs[len(specs) // 2][0][:80]})
    if agg.get("values", 0) < 800 or agg.get("prefixes", 0) < 100000:
        raise common.HarnessError("vacuous codec enumeration: %s" % agg)


# =========================================================================== (b) end to end
NTYPE = {"int": "int", "bool": "bool", "float": "float", "string": "string", "opaque": "opaque", "void": "void",
         "ai": "array<int>", "af": "array<float>", "ab": "array<bool>", "as": "array<string>",
         "aai": "array<array<int>>", "aaai": "array<array<array<int>>>"}

# user-declared externs.  The mem*/wmem*/str*n* functions with a zero count return their first argument
# untouched, so the declared nano type decides how the value is marshalled, sent and returned:
# one pass-through per transferable type.
EXTERNS = {
    "strdup": "extern fn strdup(s: string) -> string",
    "strlen": "extern fn strlen(s: string) -> int",
    "id_int": "extern fn memmove(a: int, b: int, n: int) -> int",
    "id_opq": "extern fn memcpy(a: opaque, b: opaque, n: int) -> opaque",
    "id_flt": "extern fn memset(a: float, b: int, n: int) -> float",
    "id_b": "extern fn strncpy(a: bool, b: bool, n: int) -> bool",
    "id_ai": "extern fn wmemcpy(a: array<int>, b: int, n: int) -> array<int>",
    "id_as": "extern fn wmemmove(a: array<string>, b: int, n: int) -> array<string>",
    "id_af": "extern fn wmemset(a: array<float>, b: int, n: int) -> array<float>",
    "id_ab": "extern fn stpncpy(a: array<bool>, b: int, n: int) -> array<bool>",
    "i2o": "extern fn memfrob(x: int, n: int) -> opaque",
    "o2i": "extern fn mempcpy(a: opaque, b: opaque, n: int) -> int",
    "alen": "extern fn dyn_array_length(a: array<array<int>>) -> int",
    "id3": "extern fn wmempcpy(a: array<array<array<int>>>, b: int, n: int) -> array<int>",
    "srand": "extern fn srand(x: int) -> void",
    "free": "extern fn free(p: opaque) -> void",
    "strndup": "extern fn strndup(s: string, n: int) -> opaque",
    "strnlen": "extern fn strnlen(p: opaque, n: int) -> int",
    "strchr": "extern fn strchr(p: opaque, c: int) -> opaque",
    "strstr": "extern fn strstr(p: opaque, needle: string) -> string",
    "fmax": "extern fn fmax(a: float, b: float) -> float",
    "copysign": "extern fn copysign(a: float, b: float) -> float",
    "llabs": "extern fn llabs(x: int) -> int",
    "toupper": "extern fn toupper(c: int) -> int",
    "cat": "extern fn nl_cstr_concat(a: string, b: string) -> string",
    # builtins that the type checker only knows through a declaration; codegen lowers them to vm_* externs
    "str_index_of": "extern fn str_index_of(a: string, b: string) -> int",
    "file_read": "extern fn file_read(p: string) -> string",
    "file_write": "extern fn file_write(p: string, c: string) -> int",
    "file_exists": "extern fn file_exists(p: string) -> bool",
    "dir_exists": "extern fn dir_exists(p: string) -> bool",
    "dir_create": "extern fn dir_create(p: string) -> int",
    "dir_list": "extern fn dir_list(p: string) -> array<string>",
    "setenv": "extern fn setenv(a: string, b: string) -> int",
    "chdir": "extern fn chdir(p: string) -> int",
    "mktemp_dir": "extern fn mktemp_dir(p: string) -> string",
    "process_run": "extern fn process_run(c: string) -> array<string>",
}

# builtins lowered by codegen.c; the type checker knows most of them without a declaration, the others get one
# (decided per tree by a pre-flight compile, see builtin_decls_needed)
BUILTIN_SIG = {}
for _f in ("is_digit", "is_alpha", "is_alnum", "is_space", "is_upper", "is_lower", "is_whitespace"):
    BUILTIN_SIG[_f] = ("(c: int) -> bool", "(%s 65)")
for _f in ("digit_value", "char_to_lower", "char_to_upper"):
    BUILTIN_SIG[_f] = ("(c: int) -> int", "(%s 65)")
BUILTIN_SIG["string_from_char"] = ("(c: int) -> string", "(%s 65)")
for _f in ("sqrt", "sin", "cos", "tan", "asin", "acos", "atan", "floor", "ceil", "round", "log", "log2", "log10", "exp"):
    BUILTIN_SIG[_f] = ("(x: float) -> float", "(%s 0.5)")
for _f in ("pow", "atan2", "fmod"):
    BUILTIN_SIG[_f] = ("(x: float, y: float) -> float", "(%s 0.5 2.0)")
BUILTIN_SIG.update({
    "bstr_validate_utf8": ("(s: string) -> bool", '(%s "a")'), "bstr_utf8_length": ("(s: string) -> int", '(%s "a")'),
    "bstr_utf8_char_at": ("(s: string, i: int) -> int", '(%s "a" 0)'), "bytes_from_string": ("(s: string) -> array<int>", '(%s "a")'),
    "string_from_bytes": ("(a: array<int>) -> string", "(%s [65])"), "getenv": ("(s: string) -> string", '(%s "HOME")'),
    "getcwd": ("() -> string", "(%s)"),
})
for _f, (_sig, _ex) in BUILTIN_SIG.items():
    EXTERNS.setdefault(_f, "extern fn %s%s" % (_f, _sig))


def _preflight(args):
    virt, root, work, fn = args
    sig, ex = BUILTIN_SIG[fn]
    for decl in (False, True):
        src = os.path.join(work, "pf_%s_%d.nano" % (fn, decl))
        with open(src, "w") as f:
            f.write((EXTERNS[fn] + "\n" if decl else "") + "fn main() -> int {\n    (println %s)\n    return 0\n}\n" % (ex % fn))
        rc, _o, e = common.run([virt, src, "--emit-nvm", "-o", src[:-5] + ".nvm"], timeout=120, cwd=root)
        if rc == 0:
            return fn, decl
    raise common.HarnessError("builtin %s does not compile with or without a declaration: %s" % (fn, e[-600:]))


def builtin_decls_needed(tree, work):
    jobs = [(tree.exe("nano_virt"), tree.root, work, fn) for fn in sorted(BUILTIN_SIG)]
    return frozenset(fn for fn, decl in common.pmap(_preflight, jobs) if decl)


U_ASCII = "abcdefghijklmnopqrstuvwxyz0123456789 ABCDEFGHIJKLMNOPQRSTUVWXYZ.,;:!?-_+*/=<>()[]{}@$%^&~|'`#"
U_BYTES = bytes(b for b in range(1, 256) if b not in (10, 34, 92))
U_UTF8 = "é€\U0001F600z".encode()           # 2 + 3 + 4 + 1 bytes, cut anywhere by mk
U_HIGH = b"a\xc8b\xffc\x80d\xa0\xf5e"

PRELUDE = {
    "rep": b"""fn rep(n: int, unit: string) -> string {
    let mut r: string = ""
    let mut c: string = unit
    let mut k: int = n
    while (> k 0) {
        if (== (% k 2) 1) { set r (+ r c) } else { }
        set k (/ k 2)
        if (> k 0) { set c (+ c c) } else { }
    }
    return r
}
fn mk(n: int, unit: string) -> string {
    let l: int = (str_length unit)
    return (+ (rep (/ n l) unit) (str_substring unit 0 (% n l)))
}
fn mku(n: int) -> string {
    return (+ (rep (% n 10) "z") (rep (/ n 10) (u_utf8)))
}
""",
    "u_ascii": b'fn u_ascii() -> string { return "' + U_ASCII.encode() + b'" }\n',
    "u_bytes": b'fn u_bytes() -> string { return "' + U_BYTES + b'" }\n',
    "u_utf8": b'fn u_utf8() -> string { return "' + U_UTF8 + b'" }\n',
    "u_high": b'fn u_high() -> string { return "' + U_HIGH + b'" }\n',
    "sdig": b"""fn sdig(s: string) -> int {
    let n: int = (str_length s)
    let mut h: int = 7
    let mut i: int = 0
    while (< i n) {
        set h (+ (* h 31) (char_at s i))
        set i (+ i 1)
    }
    return h
}
""",
    "idig": b"""fn idig(a: array<int>) -> int {
    let n: int = (array_length a)
    let mut h: int = 3
    let mut i: int = 0
    while (< i n) {
        set h (+ (* h 1000003) (at a i))
        set i (+ i 1)
    }
    return h
}
""",
    "asdig": b"""fn asdig(a: array<string>) -> int {
    let n: int = (array_length a)
    let mut h: int = 5
    let mut i: int = 0
    while (< i n) {
        set h (+ (* h 1000003) (+ (sdig (at a i)) (str_length (at a i))))
        set i (+ i 1)
    }
    return h
}
""",
    "abdig": b"""fn abdig(a: array<bool>) -> int {
    let n: int = (array_length a)
    let mut h: int = 1
    let mut i: int = 0
    while (< i n) {
        if (at a i) { set h (+ (* h 3) 1) } else { set h (* h 3) }
        set i (+ i 1)
    }
    return h
}
""",
    "afshow": b"""fn afshow(a: array<float>) -> int {
    let n: int = (array_length a)
    let mut i: int = 0
    while (< i n) {
        (showf (at a i))
        set i (+ i 1)
    }
    return n
}
""",
    "fspec": b"""fn f_inf() -> float {
    let mut x: float = 2.0
    let mut i: int = 0
    while (< i 11) {
        set x (* x x)
        set i (+ i 1)
    }
    return x
}
fn f_nan() -> float { return (- (f_inf) (f_inf)) }
fn f_pow2(e: int) -> float {
    let mut x: float = 1.0
    let mut i: int = 0
    if (>= e 0) {
        while (< i e) {
            set x (* x 2.0)
            set i (+ i 1)
        }
    } else {
        while (< i (- 0 e)) {
            set x (/ x 2.0)
            set i (+ i 1)
        }
    }
    return x
}
fn f_den() -> float { return (f_pow2 -1074) }
fn f_max() -> float { return (* (- 2.0 (f_pow2 -52)) (f_pow2 1023)) }
""",
    # exact observation of a float without printing it: nan / signed zero / signed inf / sign, exponent, 53-bit mantissa
    "showf": b"""fn showf(r: float) -> int {
    if (!= r r) {
        (println "f:nan")
        return 0
    } else { }
    if (== r 0.0) {
        (print "f:zero ")
        (println r)
        return 0
    } else { }
    let mut a: float = r
    let mut neg: int = 0
    if (< r 0.0) {
        set neg 1
        set a (- 0.0 r)
    } else { }
    if (== a (+ a a)) {
        (print "f:inf ")
        (println neg)
        return 0
    } else { }
    let mut e: int = 0
    while (>= a 9007199254740992.0) {
        set a (/ a 2.0)
        set e (+ e 1)
    }
    while (< a 4503599627370496.0) {
        set a (* a 2.0)
        set e (- e 1)
    }
    (print "f:")
    (print neg)
    (print " ")
    (print e)
    (print " ")
    (println (cast_int a))
    return 0
}
""",
    "mkai": b"""fn mkai(n: int) -> array<int> {
    let pool: array<int> = [0, -1, 1, -9223372036854775808, 9223372036854775807, 4294967296, -2147483648, 255, 256, 65, 97]
    let mut a: array<int> = []
    let mut i: int = 0
    while (< i n) {
        set a (array_push a (at pool (% i 11)))
        set i (+ i 1)
    }
    return a
}
fn mkbytes(n: int) -> array<int> {
    let mut a: array<int> = []
    let mut i: int = 0
    while (< i n) {
        set a (array_push a (+ 1 (% i 255)))
        set i (+ i 1)
    }
    return a
}
""",
    "mkaf": b"""fn mkaf(n: int) -> array<float> {
    let pool: array<float> = [0.0, (* -1.0 0.0), 1.0, -1.5, (f_inf), (- 0.0 (f_inf)), (f_nan), (f_den), (f_max), 3.141592653589793, 0.1, -123456.789]
    let mut a: array<float> = []
    let mut i: int = 0
    while (< i n) {
        set a (array_push a (at pool (% i 12)))
        set i (+ i 1)
    }
    return a
}
""",
    "mkab": b"""fn mkab(n: int) -> array<bool> {
    let mut a: array<bool> = []
    let mut i: int = 0
    while (< i n) {
        set a (array_push a (== (% i 3) 0))
        set i (+ i 1)
    }
    return a
}
""",
    "mkas": b"""fn mkas(n: int, each: int) -> array<string> {
    let mut a: array<string> = []
    let mut i: int = 0
    while (< i n) {
        set a (array_push a (mk (+ each (% i 3)) (u_ascii)))
        set i (+ i 1)
    }
    return a
}
""",
}
PRELUDE_DEPS = {"rep": ["u_utf8"], "asdig": ["sdig"], "afshow": ["showf"], "mkaf": ["fspec"], "mkas": ["rep", "u_ascii"]}
PRELUDE_ORDER = ["u_ascii", "u_bytes", "u_utf8", "u_high", "rep", "sdig", "idig", "asdig", "abdig", "fspec", "showf", "afshow", "mkai", "mkaf", "mkab", "mkas"]


class Case(object):
    """One end-to-end element: an extern call with concrete arguments in one call shape."""
    __slots__ = ("fam", "fn", "desc", "setup", "call", "rtype", "shape", "needs", "weight", "solo", "ret", "small", "orig", "expect_import", "cid", "expect_first")

    def __init__(self, fam, fn, desc, call, rtype, setup=(), needs=(), weight=0, small=True, orig=None, expect_import=None, solo=False, ret=None):
        # weight: rank used to pick the smallest failing case of a group, and (for strings/arrays) the data size
        self.fam, self.fn, self.desc, self.call, self.rtype = fam, fn, desc, call, rtype
        self.setup, self.needs, self.weight, self.small, self.orig = list(setup), set(needs), weight, small, orig
        self.expect_import, self.solo, self.ret = expect_import, solo, ret
        self.shape = "once"
        self.cid = -1
        self.expect_first = None      # harness sanity: first line the in-process run must print for this case (fixtures are in place)

    def size(self):
        return self.weight if (self.setup or self.fam in ("os", "str")) else 0

    def with_shape(self, shape):
        c = Case(self.fam, self.fn, self.desc, self.call, self.rtype, self.setup, self.needs, self.weight, self.small, self.orig, self.expect_import, self.solo, self.ret)
        c.shape = shape
        c.expect_first = self.expect_first
        return c

    def label(self):
        return "%s/%s %s [%s]" % (self.fam, self.fn, self.desc, self.shape)


# the extern call a result of each type is handed to in the 'nested' shape: (template, result type, needs)
OUTER = {
    "int": ("(char_to_lower %s)", "int", ()),
    "bool": ("(strncpy %s false 0)", "bool", ("id_b",)),
    "float": ("(floor %s)", "float", ()),
    "string": ("(bytes_from_string %s)", "ai", ()),
    "ai": ("(string_from_bytes %s)", "string", ()),
    # no nested shape for float/bool/string array results: vm_ffi's marshal_result labels every returned array
    # elem_type int, so handing it to a second extern re-marshals the elements as ints in both modes alike
    "opaque": ("(memcpy %s (null_opaque) 0)", "opaque", ("id_opq",)),
}


def obs_lines(rtype, var, case, needs):
    if rtype in ("int", "bool"):
        return ["(println %s)" % var]
    if rtype == "float":
        needs.add("showf")
        return ["(showf %s)" % var]
    if rtype == "string":
        needs.add("sdig")
        ls = ["(println (str_length %s))" % var, "(println (sdig %s))" % var]
        if case.small:
            ls.append("(println %s)" % var)
        if case.orig and rtype == case.rtype:
            ls.append("(println (== %s %s))" % (var, case.orig))
        return ls
    if rtype == "ai":
        needs.add("idig")
        ls = ["(println (array_length %s))" % var, "(println (idig %s))" % var]
        if case.small:
            ls.append("(println %s)" % var)
        return ls
    if rtype == "af":
        needs.update(("afshow", "showf"))
        return ["(println (array_length %s))" % var, "(println (afshow %s))" % var]
    if rtype == "ab":
        needs.add("abdig")
        ls = ["(println (array_length %s))" % var, "(println (abdig %s))" % var]
        if case.small:
            ls.append("(println %s)" % var)
        return ls
    if rtype == "as":
        needs.update(("asdig", "sdig"))
        ls = ["(println (array_length %s))" % var, "(println (asdig %s))" % var]
        if case.small:
            ls.append("(println %s)" % var)
        return ls
    if rtype == "opaque":
        needs.add("o2i")
        return ["(println (mempcpy %s %s 0))" % (var, var)]
    raise common.HarnessError("no observation for type " + rtype)


def case_function(case, name):
    """nano source (list of lines) of `fn <name>() -> int` for one case; returns (lines, needs)."""
    needs = set(case.needs)
    body = list(case.setup)
    if case.rtype == "void":
        stmts = ["unsafe { %s }" % case.call, '(println "void")']
        if case.shape == "once":
            body += stmts
        else:
            body += ["let mut li: int = 0", "while (< li 3) {"] + ["    " + s for s in stmts] + ["    set li (+ li 1)", "}"]
    elif case.shape == "once":
        body.append("let r: %s = %s" % (NTYPE[case.rtype], case.call))
        body += obs_lines(case.rtype, "r", case, needs)
    elif case.shape == "loop3":
        body += ["let mut li: int = 0", "while (< li 3) {", "    let r: %s = %s" % (NTYPE[case.rtype], case.call)]
        body += ["    " + l for l in obs_lines(case.rtype, "r", case, needs)]
        body += ["    set li (+ li 1)", "}"]
    elif case.shape == "nested":
        tmpl, t2, nd = OUTER[case.rtype]
        needs.update(nd)
        body.append("let r: %s = %s" % (NTYPE[t2], tmpl % case.call))
        body += obs_lines(t2, "r", case, needs)
    else:
        raise common.HarnessError(case.shape)
    lines = ["fn %s() -> int {" % name] + ["    " + l for l in body] + ["    return %s" % (case.ret or "3"), "}"]
    return lines, needs


def program_source(cases):
    """bytes of a complete program running the cases in order with a marker line before each."""
    fns, needs = [], set()
    for i, c in enumerate(cases):
        ls, nd = case_function(c, "c%d" % i)
        fns += ls
        needs |= nd
    changed = True
    while changed:
        changed = False
        for k in list(needs):
            for d in PRELUDE_DEPS.get(k, ()):
                if d not in needs:
                    needs.add(d)
                    changed = True
    out = [b"# C15 generated program: %d case(s)\n" % len(cases)]
    for i, c in enumerate(cases):
        out.append(("#   @%d %s\n" % (i, c.label())).encode())
    for k in sorted(needs):
        if k in EXTERNS:
            out.append(EXTERNS[k].encode() + b"\n")
    for k in PRELUDE_ORDER:
        if k in needs:
            out.append(PRELUDE[k])
    unknown = [k for k in needs if k not in EXTERNS and k not in PRELUDE]
    if unknown:
        raise common.HarnessError("unknown prelude items %s" % unknown)
    out.append(("\n".join(fns) + "\n").encode("utf-8", "surrogateescape"))
    main = ["fn main() -> int {", "    let mut acc: int = 0"]
    for i in range(len(cases)):
        main += ['    (println "@%d")' % i, "    set acc (+ acc (c%d))" % i]
    main += ['    (println "@end")', "    return acc" if (len(cases) == 1 and cases[0].ret) else "    return (% acc 251)", "}"]
    out.append(("\n".join(main) + "\n").encode())
    return b"".join(out)


# --------------------------------------------------------------------------- case generators
def nano_int(v):
    return str(v)


FLOAT_POOL = [("0.0", "0.0"), ("-0.0", "(* -1.0 0.0)"), ("1.0", "1.0"), ("-1.0", "-1.0"), ("0.5", "0.5"), ("-1.5", "-1.5"), ("2.0", "2.0"),
              ("pi", "3.141592653589793"), ("123456.789", "123456.789"), ("1000.0", "1000.0"), ("-1000.0", "-1000.0"),
              ("2^52+0.5", "4503599627370496.5"), ("inf", "(f_inf)"), ("-inf", "(- 0.0 (f_inf))"), ("nan", "(f_nan)"),
              ("denormal-min", "(f_den)"), ("dbl-max", "(f_max)")]
FLOAT_POOL2 = [FLOAT_POOL[i] for i in (0, 1, 2, 5, 7, 12, 13, 14)]
STR_CLASSES = [("ascii", "u_ascii", "(mk %d (u_ascii))"), ("bytes1-255", "u_bytes", "(mk %d (u_bytes))"),
               ("utf8", "u_utf8", "(mku %d)"), ("highbytes", "u_high", "(mk %d (u_high))")]


def ctype_safe(v):
    w = v & 0xFFFFFFFF
    if w >= 2**31:
        w -= 2**32
    return -128 <= w <= 255


def str_setup(cls, n):
    name, unit, tmpl = STR_CLASSES[cls]
    return ["let s: string = %s" % (tmpl % n)], {"rep", unit}


def dir_list_usable(ctx):
    """vm_dir_list may hand back pointers into the closed DIR (use after free, garbage in both modes alike): its
    non-empty listings are only enumerated when the in-process result is sane."""
    src = (EXTERNS["dir_list"] + '\nfn main() -> int {\n    (println (dir_list "../../../ro/d3"))\n    return 0\n}\n').encode()
    r = run_pair(ctx, src, "pf_dirlist")
    if "in" not in r:
        raise common.HarnessError("dir_list pre-flight does not compile: %s" % r["compile"][1][-500:])
    names = sorted(x.strip() for x in r["in"]["out"].decode(errors="replace").strip().strip("[]").split(","))
    return names == ["entry_%04d.txt" % i for i in range(3)]


def gen_cases(tier, needs_decl=frozenset(), with_dir_list=True):
    cases = []
    thorough = tier == "thorough"

    def add(c, shapes=("once", "loop3", "nested"), first=None):
        if first is not None:
            c.expect_first = str(first).encode()
        if c.fn in needs_decl:
            c.needs.add(c.fn)
        for sh in shapes:
            if sh == "nested" and c.rtype not in OUTER:
                continue
            cases.append(c.with_shape(sh))

    # ---- char helpers (int -> bool / int / string)
    ipool = sorted(set(B_INT + CHARS + (list(range(-128, 256)) if thorough else [])))
    for fn in ("is_digit", "is_alpha", "is_alnum", "is_space", "is_upper", "is_lower", "is_whitespace"):
        for v in ipool:
            if fn in ("is_alpha", "is_alnum", "is_space", "is_upper", "is_lower") and not ctype_safe(v):
                continue      # isalpha() & co. are only defined on unsigned-char values and EOF (domain exclusion)
            add(Case("char", fn, "%d" % v, "(%s %s)" % (fn, nano_int(v)), "bool", expect_import="vm_" + fn, weight=abs(v)))
    for fn in ("digit_value", "char_to_lower", "char_to_upper"):
        for v in ipool:
            add(Case("char", fn, "%d" % v, "(%s %s)" % (fn, nano_int(v)), "int", expect_import="vm_" + fn, weight=abs(v)))
    for v in ipool:
        add(Case("char", "string_from_char", "%d" % v, "(string_from_char %s)" % nano_int(v), "string", expect_import="vm_string_from_char", weight=abs(v)))

    # ---- math (float -> float)
    for fn in ("sqrt", "sin", "cos", "tan", "asin", "acos", "atan", "floor", "ceil", "round", "log", "log2", "log10", "exp"):
        for nm, ex in FLOAT_POOL:
            add(Case("math", fn, nm, "(%s %s)" % (fn, ex), "float", needs=("fspec",), expect_import=fn))
    p2 = FLOAT_POOL if thorough else FLOAT_POOL2
    for fn in ("pow", "atan2", "fmod"):
        for (n1, e1), (n2, e2) in itertools.product(p2, p2):
            add(Case("math", fn, "%s %s" % (n1, n2), "(%s %s %s)" % (fn, e1, e2), "float", needs=("fspec",), expect_import=fn))

    # ---- string helpers
    lens = list(STR_LENS_E2E)
    if thorough:
        lens = sorted(set(lens + list(range(4086, 4100)) + list(range(8170, 8200)) + [65530, 65531, 65532, 65533, 65534, 65537]))
    for n in lens:
        for cls in range(4):
            cname = STR_CLASSES[cls][0]
            su, nd = str_setup(cls, n)
            small = n <= 300
            d = "%s x %d" % (cname, n)
            add(Case("str", "bstr_validate_utf8", d, "(bstr_validate_utf8 s)", "bool", su, nd, n, small, expect_import="vm_bstr_validate_utf8"))
            add(Case("str", "bytes_from_string", d, "(bytes_from_string s)", "ai", su, nd, n, small, expect_import="vm_bytes_from_string"))
            if cls in (0, 2):        # the length/char_at walkers skip over a truncated trailing sequence: whole characters only
                add(Case("str", "bstr_utf8_length", d, "(bstr_utf8_length s)", "int", su, nd, n, small, expect_import="vm_bstr_utf8_length"))
                for ix in sorted(set([0, 1, n // 2, n - 1, n, -1, I64MAX] if (thorough or n in (0, 2, 256, 8181, 8182, 70000)) else [0, n])):
                    add(Case("str", "bstr_utf8_char_at", "%s index %d" % (d, ix), "(bstr_utf8_char_at s %d)" % ix, "int", su, nd, n, small, expect_import="vm_bstr_utf8_char_at"))
            for nname, needle in (("empty", '""'), ("present", '(str_substring s (/ (str_length s) 2) 2)' if n >= 4 else "s"), ("absent", '"\x7f\x7f"')):
                add(Case("str", "str_index_of", "%s needle %s" % (d, nname), "(str_index_of s %s)" % needle, "int", su, nd | {"str_index_of"}, n, small, expect_import="vm_str_index_of"))
            add(Case("str", "getenv", "name " + d, "(getenv s)", "string", su, nd, n, small, expect_import="vm_getenv"))
    for var, ln in (("C15_E0", 0), ("C15_E1", 1), ("C15_E4090", 4090), ("C15_E4091", 4091), ("C15_E4092", 4092), ("C15_E8200", 8200), ("C15_E70000", 70000), ("C15_UNSET", 0)):
        add(Case("str", "getenv", "%s (%d-byte value)" % (var, ln), '(getenv "%s")' % var, "string", weight=ln, small=False, expect_import="vm_getenv"), first=ln)

    # ---- byte arrays -> string
    for lit in ("[]", "[65]", "[104, 105]", "[0]", "[72, 0, 73]", "[255, 200, 128]", "[321]", "[-1]", "[256]", "[9223372036854775807, -9223372036854775808, 66]"):
        add(Case("bytes", "string_from_bytes", lit, "(string_from_bytes a)", "string", ["let a: array<int> = %s" % lit], weight=len(lit), expect_import="vm_string_from_bytes"))
    alens = [255, 256, 454, 455, 456, 908, 909, 910, 4091, 4092, 7281, 7282, 70000]
    for n in alens:
        add(Case("bytes", "string_from_bytes", "%d bytes" % n, "(string_from_bytes a)", "string", ["let a: array<int> = (mkbytes %d)" % n], ("mkai",), 9 * n, n <= 300, expect_import="vm_string_from_bytes"))

    # ---- pass-through externs: one per transferable type
    for v in B_INT:
        add(Case("id", "int", "%d" % v, "(memmove %d %d 0)" % (v, v), "int", needs=("id_int",), weight=abs(v)))
        c = Case("id", "opaque", "handle %d" % v, "(memfrob %d 0)" % v, "opaque", needs=("i2o",), weight=abs(v))
        add(c)
    for nm, ex in FLOAT_POOL:
        add(Case("id", "float", nm, "(memset %s 0 0)" % ex, "float", needs=("id_flt", "fspec")))
        add(Case("id", "float-fp-regs", nm, "(copysign %s %s)" % (ex, ex), "float", needs=("copysign", "fspec")))
    for b in ("true", "false"):
        add(Case("id", "bool", b, "(strncpy %s %s 0)" % (b, "false" if b == "true" else "true"), "bool", needs=("id_b",)))
    for v in (0, 1, -1):
        add(Case("id", "void", "srand %d" % v, "(srand %d)" % v, "void", needs=("srand",)), ("once", "loop3"))
    add(Case("id", "void", "free null", "(free (null_opaque))", "void", needs=("free",)), ("once", "loop3"))
    slens = list(lens)
    if thorough:
        slens += [2**20 - 6, 2**20 - 5, 2**20 - 4, 2**20 - 3, 2**20 + 1]
    for n in slens:
        for cls in range(4):
            if n > 2**19 and cls != 1:
                continue
            su, nd = str_setup(cls, n)
            add(Case("id", "string", "%s x %d" % (STR_CLASSES[cls][0], n), "(strdup s)", "string", su, nd | {"strdup"}, n, n <= 300, orig="s"))
    if thorough:     # every length around the 4 KiB result buffer and the 8 KiB request buffer, and all short ones
        for n in sorted(set(range(0, 513)) | set(range(4000, 4200)) | set(range(8100, 8300))):
            if n not in slens:
                su, nd = str_setup(1, n)
                add(Case("id", "string", "%s x %d" % (STR_CLASSES[1][0], n), "(strdup s)", "string", su, nd | {"strdup"}, n, n <= 300, orig="s"), ("once",))
        for n in sorted(set(range(440, 470)) | set(range(895, 925))):
            add(Case("id", "array<int>", "%d elements" % n, "(wmemcpy a 0 0)", "ai", ["let a: array<int> = (mkai %d)" % n], ("id_ai", "mkai"), 9 * n, False), ("once",))
    for n in (0, 1, 100, 2045, 2046, 2047, 4090, 4091, 4092, 40000):
        su, nd = str_setup(0, n)
        add(Case("id", "string-concat", "ascii x %d twice" % n, "(nl_cstr_concat s s)", "string", su, nd | {"cat"}, 2 * n, n <= 100))
    for lit in ("[]", "[7]", "[1, -2]", "[0, -1, 9223372036854775807]", "[-9223372036854775808, 4294967296, 255]"):
        add(Case("id", "array<int>", lit, "(wmemcpy a 0 0)", "ai", ["let a: array<int> = %s" % lit], ("id_ai",), len(lit)))
    for n in [454, 455, 456, 908, 909, 910, 7281, 7282, 70000] + ([116508, 116509] if thorough else []):
        add(Case("id", "array<int>", "%d elements" % n, "(wmemcpy a 0 0)", "ai", ["let a: array<int> = (mkai %d)" % n], ("id_ai", "mkai"), 9 * n, False))
    for lit in ("[]", "[1.5]", "[0.0, -1.5, 3.141592653589793]"):
        add(Case("id", "array<float>", lit, "(wmemset a 0 0)", "af", ["let a: array<float> = %s" % lit], ("id_af",), len(lit)))
    for n in (12, 454, 455, 909, 910):
        add(Case("id", "array<float>", "%d elements incl. nan/inf/-0/denormal" % n, "(wmemset a 0 0)", "af", ["let a: array<float> = (mkaf %d)" % n], ("id_af", "mkaf"), 9 * n, False))
    for lit in ("[]", "[true]", "[false, true, false]"):
        add(Case("id", "array<bool>", lit, "(stpncpy a 0 0)", "ab", ["let a: array<bool> = %s" % lit], ("id_ab",), len(lit)))
    for n in (2045, 2046, 4089, 4090, 4091, 30000):
        add(Case("id", "array<bool>", "%d elements" % n, "(stpncpy a 0 0)", "ab", ["let a: array<bool> = (mkab %d)" % n], ("id_ab", "mkab"), 2 * n, False))
    for lit in ('[]', '[""]', '["a", ""]', '["", "", ""]', '["é€", "x y", ""]'):
        add(Case("id", "array<string>", lit, "(wmemmove a 0 0)", "as", ["let a: array<string> = %s" % lit], ("id_as",), len(lit)))
    for cnt, each in ((2, 4085), (2, 4086), (2, 4087), (1, 8175), (1, 8176), (1, 8177), (300, 2), (815, 5), (816, 5), (817, 5), (3, 30000)):
        add(Case("id", "array<string>", "%d strings of about %d bytes" % (cnt, each), "(wmemmove a 0 0)", "as", ["let a: array<string> = (mkas %d %d)" % (cnt, each)], ("id_as", "mkas"), cnt * (each + 6), False))
    for lit in ("[]", "[[]]", "[[], []]", "[[1], [], [2, 3]]", "[[-9223372036854775808], [0, 0, 0, 0, 0, 0, 0, 0, 0], []]"):
        add(Case("id", "nested-array", lit, "(dyn_array_length a)", "int", ["let a: array<array<int>> = %s" % lit], ("alen",), len(lit)))
    for lit in ("[]", "[[]]", "[[[]]]", "[[[1]], [], [[], [2, 3]]]"):
        add(Case("id", "nested-array-depth3", lit, "(array_length (wmempcpy a 0 0))", "int", ["let a: array<array<array<int>>> = %s" % lit], ("id3",), len(lit)), ("once", "loop3"))
    # a real pointer of the callee's address space as opaque handle, used by later calls
    for n in (0, 1, 5, 300, 5000):
        su, nd = str_setup(0, n)
        su = su + ["let p: opaque = (strndup s 100000)", "let q: opaque = (strchr p 0)"]
        add(Case("id", "opaque-pointer", "strndup of %d bytes, then strnlen" % n, "(strnlen p 100000)", "int", su, nd | {"strndup", "strchr", "strnlen"}, n), ("once", "loop3"))
        add(Case("id", "opaque-pointer", "strndup of %d bytes, then strstr on it" % n, '(strstr p "")', "string", su, nd | {"strndup", "strchr", "strstr"}, n, n <= 300, orig="s"))
        add(Case("id", "opaque-pointer", "strndup of %d bytes, strchr to its end, strnlen" % n, "(strnlen q 10)", "int", su, nd | {"strndup", "strchr", "strnlen"}, n), ("once",))
    for v in (-5, 0, I64MAX, I64MIN + 1):
        add(Case("id", "llabs", "%d" % v, "(llabs %d)" % v, "int", needs=("llabs",), weight=abs(v)))
    for v in (97, 65, -1, 255, 0):
        add(Case("id", "toupper", "%d" % v, "(toupper %d)" % v, "int", needs=("toupper",), weight=abs(v)))

    # ---- OS helpers (lowered to vm_* externs); cwd is a private directory per run and mode
    ro = "../../../ro/"
    for n in [0, 1, 4090, 4091, 4092, 4093, 8192, 65536] + [2**20 - 6, 2**20 - 5, 2**20 - 4, 2**20 + 7]:
        add(Case("os", "file_read", "%d-byte file" % n, '(file_read "%sf%d")' % (ro, n), "string", needs=("file_read",), weight=n, small=n <= 1, expect_import="vm_file_read"), first=n)
    add(Case("os", "file_read", "missing file", '(file_read "nope")', "string", needs=("file_read",), expect_import="vm_file_read"))
    for n in (0, 1, 300, 8100, 8160, 8170, 8180, 20000):
        su, nd = str_setup(1, n)
        su = su + ['let w: int = (file_write "out.bin" s)', "(println w)"]
        add(Case("os", "file_write+file_read", "%d bytes" % n, '(file_read "out.bin")', "string", su, nd | {"file_read", "file_write"}, n, n <= 300, orig="s", expect_import="vm_file_write"), ("once", "loop3"))
    for p, w in (("sub/marker", "file"), ("sub", "directory"), ("nope", "missing"), ("", "empty path")):
        add(Case("os", "file_exists", w, '(file_exists "%s")' % p, "bool", needs=("file_exists",), expect_import="vm_file_exists"))
        add(Case("os", "dir_exists", w, '(dir_exists "%s")' % p, "bool", needs=("dir_exists",), expect_import="vm_dir_exists"))
    add(Case("os", "dir_create", "new then again", '(dir_create "made")', "int", needs=("dir_create",), expect_import="vm_dir_create"), ("once", "loop3"))
    for d, w in (("d0", "empty directory"), ("d3", "3 entries"), ("d400", "400 entries (result > 4 KiB)"), ("nope", "missing directory")):
        if d in ("d3", "d400") and not with_dir_list:
            continue
        add(Case("os", "dir_list", w, '(dir_list "%s%s")' % (ro, d), "as", needs=("dir_list",), weight={"d400": 8400, "d3": 63}.get(d, 0), small=d != "d400", expect_import="vm_dir_list"), ("once", "loop3"), first={"d0": 0, "d3": 3, "d400": 400, "nope": 0}[d])
    add(Case("os", "getcwd", "length only", "(str_length (getcwd))", "int", expect_import="vm_getcwd"))
    add(Case("os", "chdir", "then relative file_exists", '(file_exists "marker")', "bool", ['let cd: int = (chdir "sub")', "(println cd)"], ("chdir", "file_exists"), expect_import="vm_chdir", solo=True), ("once",))
    add(Case("os", "setenv+getenv", "round trip", '(getenv "C15_SET")', "string", ['let se: int = (setenv "C15_SET" "v a l")', "(println se)"], ("setenv",), expect_import="vm_setenv"), ("once", "loop3"))
    add(Case("os", "mktemp_dir", "exists", '(dir_exists (mktemp_dir "c15_"))', "bool", needs=("mktemp_dir", "dir_exists"), expect_import="vm_mktemp_dir"), ("once",))
    for cmd, w in (("echo hi", "stdout"), ("exit 3", "exit status"), ("echo err 1>&2", "stderr"), ("printf %05000d 7", "5000-byte stdout"), ("true", "nothing")):
        add(Case("os", "process_run", w, '(process_run "%s")' % cmd, "as", needs=("process_run",), weight=5000 if "5000" in cmd else 10, small=len(cmd) < 12, expect_import="vm_process_run"), ("once",))

    # ---- exit status taken from an extern result (own program each)
    for v in (0, 1, 65, 255, 256, -1, 2**32 + 7):
        c = Case("exit", "main-returns-extern-result", "%d" % v, "(char_to_upper %d)" % v, "int", solo=True, ret="r", expect_import="vm_char_to_upper", weight=abs(v))
        add(c, ("once",))
    for i, c in enumerate(cases):
        c.cid = i
    return cases


# --------------------------------------------------------------------------- running
G = {}


def prepare_world(work, tree, probe=None):
    """Fixtures shared by run() and replay(): cop wrapper, read-only files/directories, environment."""
    wrap = os.path.join(work, "wrapbin")
    os.makedirs(wrap, exist_ok=True)
    w = os.path.join(wrap, "nano_cop")
    with open(w, "w") as f:
        f.write('#!/bin/sh\n# vacuity guard: records every co-process launch, then becomes the real nano_cop\n'
                'echo launched >> "$C15_COP_LOG"\nexec "%s"\n' % tree.exe("nano_cop"))
    os.chmod(w, 0o755)
    ro = os.path.join(work, "ro")
    os.makedirs(ro, exist_ok=True)
    for n in [0, 1, 4090, 4091, 4092, 4093, 8192, 65536, 2**20 - 6, 2**20 - 5, 2**20 - 4, 2**20 + 7]:
        with open(os.path.join(ro, "f%d" % n), "wb") as f:
            f.write(bytes((1 + (i % 255)) for i in range(min(n, 255))) * (n // 255 + 1))
            f.truncate(n)
    for d, cnt in (("d0", 0), ("d3", 3), ("d400", 400)):
        os.makedirs(os.path.join(ro, d), exist_ok=True)
        for i in range(cnt):
            with open(os.path.join(ro, d, "entry_%04d.txt" % i), "w") as f:
                f.write("x")
    envx = {"PATH": wrap + ":" + common.CLEAN_ENV["PATH"], "C15_E0": "", "C15_E1": "x"}
    for n in (4090, 4091, 4092, 8200, 70000):
        envx["C15_E%d" % n] = ("v" * n)
    os.makedirs(os.path.join(work, "r"), exist_ok=True)
    return {"work": work, "wrap": wrap, "envx": envx, "probe": probe, "vm": tree.exe("nano_vm"), "virt": tree.exe("nano_virt"), "root": tree.root}


def run_pair(ctx, src_bytes, tag, timeout=60):
    """Compile one program, run it in-process and isolated.  Returns dict of observations."""
    rdir = os.path.join(ctx["work"], "r", tag)
    if os.path.isdir(rdir):
        shutil.rmtree(rdir)
    res = {"runs": 0}
    os.makedirs(rdir)
    src = os.path.join(rdir, "p.nano")
    with open(src, "wb") as f:
        f.write(src_bytes)
    nvm = os.path.join(rdir, "p.nvm")
    rc, o, e = common.run([ctx["virt"], src, "--emit-nvm", "-o", nvm], timeout=120, cwd=ctx["root"])
    res["compile"] = (rc, e[-3000:] + o[-1000:])
    if rc != 0 or not os.path.exists(nvm):
        return res
    for mode, flag in (("in", []), ("iso", ["--isolate-ffi"])):
        cwd = os.path.join(rdir, "m0" if mode == "in" else "m1")
        os.makedirs(os.path.join(cwd, "sub"))
        with open(os.path.join(cwd, "sub", "marker"), "w") as f:
            f.write("m")
        log = os.path.join(rdir, mode + ".coplog")
        envx = dict(ctx["envx"])
        envx["C15_COP_LOG"] = log
        t = timeout
        for attempt in range(2):
            rc, o, e = common.run([ctx["vm"]] + flag + [nvm], timeout=t, cwd=cwd, envx=envx)
            res["runs"] += 1
            if rc != "timeout":
                break
            t = timeout * 10        # a timeout is re-run alone with a 10x limit before it counts as a hang
            if os.path.exists(log):
                os.unlink(log)
        launches = 0
        if os.path.exists(log):
            with open(log) as f:
                launches = len(f.read().splitlines())
        res[mode] = {"rc": rc, "out": o, "err": e[-3000:], "launches": launches}
    res["nvm"] = nvm
    res["dir"] = rdir
    return res


def split_markers(out, n):
    """chunks[k] = bytes printed by case k (None if its marker never appeared); chunks[n] = after @end."""
    chunks = [None] * (n + 1)
    marks = []
    pos = 0
    for k in list(range(n)) + ["end"]:
        m = ("@%s\n" % k).encode()
        if pos == 0 and out.startswith(m):
            i = 0
        else:
            j = out.find(b"\n" + m, max(pos - 1, 0))
            i = j + 1 if j >= 0 else -1
        if i < 0:
            break
        marks.append((i, i + len(m)))
        pos = i + len(m)
    for j, (_s, e) in enumerate(marks):
        end = marks[j + 1][0] if j + 1 < len(marks) else len(out)
        chunks[j] = out[e:end]
    return chunks


def norm_err(e):
    e = e.decode(errors="replace")
    lines = [l.strip() for l in e.splitlines() if l.strip()][:3]
    return re.sub(r"\d+", "N", " | ".join(lines))[:200]


def check_imports(ctx, nvm, expected):
    """Every builtin of the batch must be an import of the compiled module with at least one CALL_EXTERN."""
    if not expected:
        return []
    rc, o, e = common.run([ctx["probe"], "imports", nvm], timeout=300, envx={"ASAN_OPTIONS": SAN_OPTS})
    if rc != 0:
        raise common.HarnessError("cop_probe imports failed: %s" % e[-500:])
    calls = {}
    for l in o.decode(errors="replace").splitlines():
        if l.startswith("IMPORT"):
            p = l.split()
            calls[p[3]] = int(p[6].split("=")[1])
    for sym, fn in expected:
        if calls.get(sym, 0) < 1:
            raise common.HarnessError("builtin %s was expected to be lowered to extern %s but %s has no such call (%s)" % (fn, sym, nvm, sorted(calls)))
    return sorted(set(sym for sym, _fn in expected))


def _batch_worker(job):
    """Runs one batch with the peel strategy; returns a dict of counts, violations and leftovers."""
    bid, cases = job
    ctx = G["ctx"]
    out = {"pairs": 0, "runs": 0, "compiles": 0, "compared": 0, "agree": 0, "viol": [], "outcomes": set(), "vacuity": [], "imports": []}
    queue = [list(cases)]
    seq = 0
    confirmed_per_sig = {}
    while queue:
        cs = queue.pop(0)
        if not cs:
            continue
        seq += 1
        tag = "b%d_%d" % (bid, seq)
        src = program_source(cs)
        r = run_pair(ctx, src, tag)
        out["compiles"] += 1
        if "in" not in r:
            raise common.HarnessError("generated program does not compile (%s): %s\n%s" % (cs[0].label(), r["compile"][1].decode(errors="replace")[-1500:], src.decode(errors="replace")[:1500]))
        out["pairs"] += 1
        out["runs"] += r["runs"]
        n = len(cs)
        expect_rc = None if any(c.ret for c in cs) else (3 * n) % 251
        ci = split_markers(r["in"]["out"], n)
        if r["in"]["rc"] == "timeout" or any(x is None for x in ci) or (expect_rc is not None and r["in"]["rc"] != expect_rc):
            raise common.HarnessError("reference (in-process) run of %s is unhealthy: rc=%s expected=%s stderr=%s first case %s" % (
                tag, r["in"]["rc"], expect_rc, r["in"]["err"][-400:], cs[0].label()))
        for k, c in enumerate(cs):
            if c.expect_first is not None and c.shape != "nested" and not ci[k].startswith(c.expect_first + b"\n"):
                raise common.HarnessError("fixture problem: %s printed %r first, expected %r" % (c.label(), ci[k][:40], c.expect_first))
        if r["in"]["launches"] != 0:
            raise common.HarnessError("in-process run launched a co-process (%s)" % tag)
        if seq == 1:
            out["imports"] += check_imports(ctx, r["nvm"], [(c.expect_import, c.fn) for c in cs if c.expect_import])
        co = split_markers(r["iso"]["out"], n)
        first = None
        for k in range(n + 1):
            if ci[k] != co[k]:
                first = k
                break
        if first is None and r["in"]["rc"] != r["iso"]["rc"]:
            first = n
        if first is None:
            if r["iso"]["launches"] < 1:
                out["vacuity"].append("isolated run of %s never launched nano_cop" % tag)
            out["compared"] += n
            out["agree"] += n
            for k in range(n):
                out["outcomes"].add(common.sha(ci[k])[:12])
            shutil.rmtree(r["dir"], ignore_errors=True)
            continue
        # cases before `first` agree
        out["compared"] += min(first, n)
        out["agree"] += min(first, n)
        if first >= n:
            # every case agrees, but the tail / exit status differs: attribute to the whole program
            sig = ("exit-or-tail", norm_err(r["iso"]["err"]), str(r["in"]["rc"]), str(r["iso"]["rc"]))
            out["viol"].append({"sig": sig, "case": cs[-1], "cases": cs, "src": src, "in": r["in"], "iso": r["iso"], "confirmed": True, "context": True})
            continue
        bad = cs[first]
        out["compared"] += 1
        prov = (norm_err(r["iso"]["err"]), str(r["iso"]["rc"]), bad.fam, bad.fn)
        if n == 1:
            solo_src, solo = src, r
            differs = True
        else:
            solo_src = program_source([bad])
            solo = run_pair(ctx, solo_src, tag + "s")
            out["pairs"] += 1
            out["runs"] += solo.get("runs", 0)
            out["compiles"] += 1
            differs = (solo["in"]["rc"], solo["in"]["out"]) != (solo["iso"]["rc"], solo["iso"]["out"])
        if differs:
            if confirmed_per_sig.get(prov, 0) < 2:
                again = run_pair(ctx, solo_src, tag + "t")
                out["pairs"] += 1
                out["runs"] += again.get("runs", 0)
                # the reference observation must replay identically; the isolated one must differ from it both times
                # (how a broken isolated run fails - error exit or SIGPIPE - may depend on timing, that it fails may not)
                ref_same = (again["in"]["rc"], again["in"]["out"]) == (solo["in"]["rc"], solo["in"]["out"])
                again_differs = (again["in"]["rc"], again["in"]["out"]) != (again["iso"]["rc"], again["iso"]["out"])
                if not ref_same or not again_differs:
                    raise common.HarnessError("replay of %s alone is not deterministic (in: %s/%s iso: %s/%s)" % (
                        bad.label(), solo["in"]["rc"], again["in"]["rc"], solo["iso"]["rc"], again["iso"]["rc"]))
                if (again["iso"]["rc"], again["iso"]["out"]) != (solo["iso"]["rc"], solo["iso"]["out"]):
                    out["iso_varies"] = out.get("iso_varies", 0) + 1
                confirmed_per_sig[prov] = confirmed_per_sig.get(prov, 0) + 1
            sig = (norm_err(solo["iso"]["err"]), str(solo["in"]["rc"]), str(solo["iso"]["rc"]))
            if not solo["iso"]["err"].strip():
                sig = sig + (bad.fam + "/" + bad.fn,)
            out["viol"].append({"sig": sig, "case": bad, "cases": [bad], "src": solo_src, "in": solo["in"], "iso": solo["iso"], "confirmed": True, "context": False})
        else:
            # differs only inside the batch: must replay as a batch
            again = run_pair(ctx, src, tag + "u")
            out["pairs"] += 1
            out["runs"] += again.get("runs", 0)
            if (again["iso"]["rc"], again["iso"]["out"]) != (r["iso"]["rc"], r["iso"]["out"]) or (again["in"]["rc"], again["in"]["out"]) != (r["in"]["rc"], r["in"]["out"]):
                raise common.HarnessError("batch %s differs between modes but not deterministically (first differing case %s)" % (tag, bad.label()))
            sig = ("only-after-earlier-calls", norm_err(r["iso"]["err"]), str(r["in"]["rc"]), str(r["iso"]["rc"]), bad.fam + "/" + bad.fn)
            out["viol"].append({"sig": sig, "case": bad, "cases": cs[:first + 1], "src": program_source(cs[:first + 1]), "in": r["in"], "iso": r["iso"], "confirmed": True, "context": True})
        queue.append(cs[first + 1:])
    return out


def make_batches(cases, size):
    batches, cur, curw, key = [], [], 0, None
    for c in cases:
        k = (c.fam, c.fn)     # one function per program (keeps artefacts small; see also the note on is_* lowering in run_e2e)
        if c.solo:
            batches.append([c])
            continue
        if cur and (k != key or len(cur) >= size or curw + c.size() > 400000):
            batches.append(cur)
            cur, curw = [], 0
        key = k
        cur.append(c)
        curw += c.size()
    if cur:
        batches.append(cur)
    return batches


def lowered_in_source(root):
    """C symbol names that codegen.c registers for builtins lowered to OP_CALL_EXTERN."""
    src = open(os.path.join(root, "src/nanovirt/codegen.c"), errors="replace").read()
    names = set(re.findall(r'register_extern\(cg,\s*"([A-Za-z0-9_]+)"', src))
    names |= set(re.findall(r'"(vm_[a-z0-9_]+)"', src))
    for arr in re.findall(r'math_fns_[12]arg\[\]\s*=\s*\{([^}]*)\}', src):
        names |= set(re.findall(r'"([a-z0-9]+)"', arr))
    m = re.search(r'/\* Character classification builtins \*/(.*?)compile_expr', src, re.S)
    if m:
        names |= set("vm_" + x for x in re.findall(r'"(is_[a-z]+)"', m.group(1)))
    return names


def leftovers(scratch):
    """pids of processes whose executable lives in our scratch directory (stray nano_cop / nano_vm)."""
    pids = []
    me = os.getpid()
    for p in os.listdir("/proc"):
        if not p.isdigit() or int(p) == me:
            continue
        try:
            exe = os.readlink("/proc/%s/exe" % p)
        except OSError:
            continue
        if exe.startswith(scratch) and os.path.basename(exe).split(" ")[0] in ("nano_cop", "nano_vm"):
            pids.append(int(p))
    return pids


def run_e2e(rep, tree, probe, work, tier):
    ctx = prepare_world(work, tree, probe)
    G["ctx"] = ctx
    needs_decl = builtin_decls_needed(tree, work)
    rep.coverage["builtins_needing_a_declaration"] = ",".join(sorted(needs_decl))
    dl = dir_list_usable(ctx)
    rep.coverage["dir_list_nonempty_enumerated"] = dl
    if not dl:
        common.log("note: vm_dir_list returns dangling names in-process; non-empty dir_list cases are not enumerated")
    cases = gen_cases(tier, needs_decl, dl)
    fams = os.environ.get("VERIF_C15_FAMILIES")
    if fams:
        cases = [c for c in cases if c.fam in fams.split(",")]
    batches = make_batches(cases, 40)
    jobs = list(enumerate(batches))
    tot = {"pairs": 0, "runs": 0, "compiles": 0, "compared": 0, "agree": 0, "iso_varies": 0}
    viols, outcomes, vac, imports = [], set(), [], []
    done = 0
    for out in common.pimap(_batch_worker, jobs):
        for k in tot:
            tot[k] += out.get(k, 0)
        viols += out["viol"]
        outcomes |= out["outcomes"]
        vac += out["vacuity"]
        imports += out["imports"]
        done += 1
        if rep.out_of_time():
            break
    if vac:
        raise common.HarnessError("vacuous isolation: %s (%d run(s))" % (vac[0], len(vac)))
    covered = set(imports)
    in_src = lowered_in_source(tree.root)
    not_covered = sorted(in_src - covered)
    if len(in_src) < 30:
        raise common.HarnessError("could not derive the lowered-builtin list from codegen.c (%d names)" % len(in_src))
    rep.coverage["lowered_builtins_in_source"] = len(in_src)
    rep.coverage["lowered_builtins_exercised"] = len(in_src & covered)
    rep.coverage["lowered_builtins_not_exercised"] = ",".join(not_covered)
    if not fams and not_covered:
        rep.exhaustive = False
    # group violations by cause signature
    groups = {}
    for v in viols:
        groups.setdefault(v["sig"], []).append(v)
    for sig, vs in sorted(groups.items(), key=lambda kv: str(kv[0])):
        vs.sort(key=lambda v: (v["context"], {"once": 0, "loop3": 1, "nested": 2}[v["case"].shape], v["case"].weight, v["case"].cid))
        v = vs[0]
        per_fn = {}
        for x in vs:
            per_fn[x["case"].fam + "/" + x["case"].fn] = per_fn.get(x["case"].fam + "/" + x["case"].fn, 0) + 1
        summary = ("in-process and --isolate-ffi runs differ: %s; in-process exit=%s, isolated exit=%s, isolated stderr: %s  (%d case(s): %s)" % (
            v["case"].label(), v["in"]["rc"], v["iso"]["rc"], norm_err(v["iso"]["err"]) or "(none)", len(vs),
            ", ".join("%s x%d" % kv for kv in sorted(per_fn.items())[:12])))
        rep.violation("e2e:" + str(sig), {
            "program.nano": v["src"], "in.stdout": v["in"]["out"][-200000:], "iso.stdout": v["iso"]["out"][-200000:],
            "in.stderr": v["in"]["err"], "iso.stderr": v["iso"]["err"],
            "cases.txt": "".join("%s\n" % x["case"].label() for x in vs[:2000])},
            summary, "cd %s && ./check C15 --replay $(dirname $0)" % common.VERIF)
    stray = leftovers(common.scratch())
    for p in stray:
        try:
            os.kill(p, 9)
        except OSError:
            pass
    rep.coverage["stray_processes_killed"] = len(stray)
    rep.count("states", len(cases))
    rep.count("transitions", tot["compiles"] + tot["runs"])
    rep.count("traces_validated_against_impl", tot["compared"])
    rep.coverage.update({"e2e_cases": len(cases), "e2e_programs": len(batches), "e2e_program_pairs_run": tot["pairs"], "e2e_case_observations_compared": tot["compared"],
                         "e2e_case_observations_equal": tot["agree"], "e2e_distinct_case_outputs": len(outcomes), "e2e_differing_cases": len(viols), "e2e_differing_cases_whose_isolated_outcome_varies": tot["iso_varies"]})
    per_fam = {}
    for c in cases:
        per_fam[c.fam] = per_fam.get(c.fam, 0) + 1
    for k, v in per_fam.items():
        rep.coverage["e2e_cases_" + k] = v
    for c in (cases[0], cases[len(cases) // 3], cases[2 * len(cases) // 3], cases[-1]):
        rep.sample({"e2e_case": c.label()})
    if done < len(jobs):
        rep.exhaustive = False
    elif not fams:
        if len(cases) < 4000 or tot["compared"] < len(cases) or len(outcomes) < 200:
            raise common.HarnessError("vacuous end-to-end enumeration: cases=%d compared=%d distinct outputs=%d" % (len(cases), tot["compared"], len(outcomes)))


def run(tier):
    rep = common.Report("C15", tier)
    rep.set_deadline(900 if tier == "quick" else 3 * 3600)
    work = os.path.join(common.scratch(), "c15")
    os.makedirs(work, exist_ok=True)
    only = os.environ.get("VERIF_C15_ONLY", "")
    asan = common.build_tree("asan")
    probe = asan.build_probe(os.path.join(common.VERIF, "vf/probes/cop_probe.c"), "cop_probe")
    if only != "e2e":
        run_codec(rep, asan, probe, work, tier)
    if only != "codec":
        plain = common.build_tree("plain")
        run_e2e(rep, plain, probe, work, tier)
    rep.assumptions += [
        "codec: boundary pools, not all values: 17 ints/handles, 15 float bit patterns, string lengths {0,1,2,255,256,4095,4096,8179..8193,65535,65536,70000} x 5 content classes, arrays of length 0-3 over pools of 2-5 elements per kind, nesting depth <= 3, long arrays up to 7282 (thorough 116509) elements",
        "end to end: stdout bytes and exit status are compared (stderr is not part of the property); floats are observed exactly (sign, exponent, 53-bit mantissa, nan/inf/zero class) through integer prints, NaN payloads only in the codec part",
        "ctype-based helpers (is_alpha, is_alnum, is_space, is_upper, is_lower) only get arguments whose int truncation lies in -128..255 (isalpha() is undefined elsewhere); utf8 length/char_at only get whole-character strings",
        "user externs are pure value pass-throughs (no extern writes to stdout: the co-process's stdout is the protocol pipe); documented 16 MiB payload limit not exceeded",
        "truncated-header family declares lengths up to 2^32-1; allocations above 1 GiB fail (asan max_allocation_size_mb=1024)",
    ]
    return rep.finish()


def replay(path):
    """Re-runs one stored violation on a fresh build: program.nano both ways, or spec.txt through the probe."""
    work = os.path.join(common.scratch(), "c15")
    os.makedirs(work, exist_ok=True)
    if os.path.exists(os.path.join(path, "spec.txt")):
        asan = common.build_tree("asan")
        probe = asan.build_probe(os.path.join(common.VERIF, "vf/probes/cop_probe.c"), "cop_probe")
        rc, o, e = common.run([probe, "codec", os.path.join(path, "spec.txt"), "0", "1"], timeout=3600, envx={"ASAN_OPTIONS": SAN_OPTS})
        o = o.decode(errors="replace")
        print(o, end="")
        print(e.decode(errors="replace")[-3000:])
        bad = rc != 0 or any(l.startswith("FAIL") for l in o.splitlines())
        print("replay: %s" % ("codec failure reproduced" if bad else "codec case passes"))
        return 1 if bad else 0
    plain = common.build_tree("plain")
    ctx = prepare_world(work, plain)
    src = open(os.path.join(path, "program.nano"), "rb").read()
    r = run_pair(ctx, src, "replay")
    if "in" not in r:
        raise common.HarnessError("stored program does not compile: %s" % r["compile"][1][-1000:])
    for mode in ("in", "iso"):
        print("---- %s: exit=%s co-process launches=%d stdout %d bytes, stderr: %s" % (
            "nano_vm" if mode == "in" else "nano_vm --isolate-ffi", r[mode]["rc"], r[mode]["launches"], len(r[mode]["out"]), r[mode]["err"].decode(errors="replace").strip()[-300:]))
    differ = (r["in"]["rc"], r["in"]["out"]) != (r["iso"]["rc"], r["iso"]["out"])
    if differ:
        a, b = r["in"]["out"].splitlines(), r["iso"]["out"].splitlines()
        for i in range(max(len(a), len(b))):
            x = a[i] if i < len(a) else None
            y = b[i] if i < len(b) else None
            if x != y:
                print("first differing stdout line %d: in-process %r / isolated %r" % (i + 1, (x or b"")[:120], (y or b"")[:120]))
                break
    print("replay: %s" % ("runs differ (violation reproduced)" if differ else "runs agree"))
    return 1 if differ else 0
