"""C02  Every execution engine implements the defined semantics (spec + NanoCore model).

Exhaustive small-scope enumeration of programs (layers E, S, F, D + the operator x boundary
matrix + the effect-order matrix), each executed on the real native and NanoVM engines and
compared, per engine, with NanoRef - an independent executable transcription of
docs/SPECIFICATION.md sections 4-8.
"""
import os

from .. import common, langrun, nanoref as nr, xfam
from . import langcommon as lc

LAYERS = ["op_matrix", "effect_order", "layer_F", "layer_D", "layer_S", "layer_E"]


ENGINES = ("vm", "native", "vm:infix", "native:infix")


def judge(rep, cases, res, findings, engines=ENGINES):
    byid = dict((c["id"], c) for c in cases)
    fnd = dict((f["id"], f) for f in findings)
    judged = outdom = 0
    for cid in sorted(res, key=lambda k: (len(k), k)):
        r = res[cid]
        case = byid[cid]
        exp = r["expected"]
        if exp[0] != "normal":
            outdom += 1
            rep.count("out_of_domain_" + exp[0])
            continue
        judged += 1
        obs = dict((e, r.get(e)) for e in engines)
        # front end refuses a program that is valid by the specification
        if all(o is not None and lc.is_frontend_reject(o) for o in obs.values()):
            import re
            m = re.search(r"Cannot assign to immutable variable '(\w+)'", obs[engines[0]][2])
            if m and "typechecker-scope-leak-rejects-valid" in fnd and lc.immutable_shadow_then_set(case, m.group(1)):
                rep.known_finding("typechecker-scope-leak-rejects-valid", fnd["typechecker-scope-leak-rejects-valid"]["what"])
                continue
            rep.violation("reject:" + cid, {"program.nano": langrun.source_of([case]), "diagnostics.txt": obs[engines[0]][2]},
                          "%s: a program that is valid by the specification is refused by the front end: %s" % (cid, obs[engines[0]][2].strip().splitlines()[0][:150]),
                          "bin/nano_virt program.nano --run ; bin/nanoc_c program.nano -o p && ./p")
            continue
        for eng in engines:
            o = obs[eng]
            rep.count("transitions")
            if o is None:
                raise common.HarnessError("no observation for %s on %s" % (cid, eng))
            if o[0] == "ok" and o[1] == exp[1]:
                continue
            if o[0] == "ok":
                if (eng.startswith("native") and "native-unsequenced-effects" in fnd and lc.has_unsequenced_effects(case)
                        and lc.same_lines_permuted(o[1], exp[1])):
                    rep.known_finding("native-unsequenced-effects", fnd["native-unsequenced-effects"]["what"])
                    continue
                summary = "%s [%s]: %s prints %r, the specification prescribes %r" % (cid, case["layer"], eng, o[1][:120], exp[1][:120])
            else:
                summary = "%s [%s]: %s fails (%s) on a program the specification defines: %s" % (cid, case["layer"], eng, o[1], o[2].strip()[-200:].replace("\n", " | "))
            # which other engine agrees with whom: an oracle bug shows as 'engines agree with each other, not with NanoRef'
            others = [e for e in engines if e != eng and obs[e] is not None and obs[e][0] == "ok" and o[0] == "ok" and obs[e][1] == o[1]]
            note = "NOTE: all engines agree with each other and differ from the reference (triage the reference model first)\n" if others and len(others) == len(engines) - 1 else ""
            rep.violation("c02:%s:%s" % (eng, cid),
                          {"program.nano": langrun.source_of([case], "infix" if eng.endswith(":infix") else "prefix"), "expected.txt": exp[1],
                           "observed_%s.txt" % eng.replace(":", "_"): (o[1] if o[0] == "ok" else o[1] + "\n" + o[2]), "note.txt": note},
                          summary, "bin/nano_virt program.nano --run ; bin/nanoc_c program.nano -o p && ./p   # compare with expected.txt (text between the @@ markers)")
    return judged, outdom


def _hm_engine_task(args):
    bi, names, srcs, workdir, vm_exe = args
    lang = _HM["lang"]
    p = os.path.join(lang.work, "hm2_%d.nano" % bi)
    main = "fn main() -> int {\n" + "".join('    (println "@@%s")\n    (println (%s))\n' % (n, n) for n in names) + '    (println "@@end")\n    return 0\n}\nshadow main { assert true }\n'
    with open(p, "w") as f:
        f.write("".join(srcs) + main)
    out = {}
    v = lang.vm(p)
    n = lang.native(p)
    for eng, r in (("vm", v), ("native", n)):
        d = {}
        if r.get("rc") == 0:
            for part in r["out"].decode(errors="replace").split("@@"):
                if "\n" in part:
                    nm, rest = part.split("\n", 1)
                    d[nm] = rest
        out[eng] = (r.get("rc"), d, (r.get("err", b"") + r.get("compile_err", b""))[-600:].decode(errors="replace"))
    return bi, out


_HM = {}


def hashmap_family(rep, tier, lang):
    """HashMap<string,int> operation histories on both engines against a plain map (spec 3.4.6)"""
    from . import c03
    seqs = c03.hm_sequences(tier)
    funcs = [("hm%d" % i,) + c03.hm_function("hm%d" % i, sq) + (sq,) for i, sq in enumerate(seqs)]
    _HM["lang"] = lang
    B = 80
    jobs = [(bi, [f[0] for f in funcs[bi:bi + B]], [f[1] for f in funcs[bi:bi + B]], lang.work, None) for bi in range(0, len(funcs), B)]
    byname = dict((f[0], f) for f in funcs)
    judged = 0
    for bi, out in common.pmap(_hm_engine_task, jobs):
        names = jobs[bi // B][1]
        for eng in ("vm", "native"):
            rc, d, err = out[eng]
            for n in names:
                _n, src, exp, sq = byname[n]
                judged += 1
                rep.count("transitions")
                desc = " ".join("%s(%s)" % o for o in sq)
                if rc != 0 or n not in d:
                    rep.violation("c02:hm:%s:fail" % eng, {"program.nano": src, "diag.txt": err}, "HashMap history %s: %s fails (rc %s): %s" % (desc, eng, rc, err.strip()[-160:].replace("\n", " | ")))
                    break
                if d[n] != exp:
                    rep.violation("c02:hm:%s:%s" % (eng, "/".join(o[0] for o in sq)), {"program.nano": src, "expected.txt": exp, "observed.txt": d[n]},
                                  "HashMap history %s: %s prints %r, a map gives %r" % (desc, eng, d[n][:80], exp[:80]))
    rep.coverage["hashmap_histories_x_engines"] = judged
    return judged // 2


def run(tier):
    rep = common.Report("C02", tier)
    tree, lang, cases, res = lc.run_layers(tier, LAYERS, engines=ENGINES)
    findings = common.load_findings("C02")
    judged, outdom = judge(rep, cases, res, findings)
    # exit status: NanoRef says main's value mod 256
    for name, src, want in lc.exit_status_family():
        p = os.path.join(lang.work, name + ".nano")
        with open(p, "w") as f:
            f.write(src)
        v = lang.vm(p)
        n = lang.native(p)
        rep.count("transitions", 2)
        for eng, rc, out in (("vm", v["rc"], v["out"]), ("native", n["rc"], n["out"])):
            if rc != want or out != b"x\n":
                rep.violation("exit:%s:%s" % (eng, name), {"program.nano": src}, "%s: %s exits %s (stdout %r), specification: %d" % (name, eng, rc, out[:40], want))
        judged += 1
    judged += hashmap_family(rep, tier, lang)
    xfam.judge(rep, "C02", lang, tier)      # text-template families: features outside the typed AST enumerator
    rep.count("states", judged)
    rep.count("traces_validated_against_impl", judged)
    rep.coverage["cases_enumerated"] = len(cases)
    rep.coverage["cases_outside_defined_domain"] = outdom
    rep.coverage["per_layer"] = dict((l, sum(1 for c in cases if c["layer"] == l)) for l in sorted(set(c["layer"] for c in cases)))
    for l in ("OPM", "EFF", "E", "S", "F", "D"):
        c = next((c for c in cases if c["layer"] == l), None)
        if c:
            rep.sample({"layer": l, "id": c["id"], "source": nr.Printer().program(langrun.make_program([c]))[-400:]})
    rep.assumptions += ["NanoRef (vf/nanoref.py) is the executable reading of SPECIFICATION.md 4-8; x/0, x%0, INT64_MIN/-1 and out-of-range indices are outside the defined domain and not judged here",
                        "floats are not printed; string escape sequences are not generated (undocumented)",
                        "the Coq slice (formal/Semantics.v) is represented by the arithmetic/short-circuit rules shared with the spec; Z-vs-int64 and floor-vs-truncate differences are outside the common domain"]
    if judged < 500:
        raise common.HarnessError("vacuous C02")
    return rep.finish()
