"""C01  Native (C-transpiled) and NanoVM backends are observationally equivalent.

Every enumerated program (layers E, S, F, D, the aliasing layer A, operator/effect matrices,
multi-file module shapes M, exit-status family) is compiled and run by the real nanoc
(+ C compiler) and by the real nano_virt --run; stdout bytes and exit status must be equal.
The oracle is purely differential; NanoRef is only used to keep programs inside the defined
domain (no x/0, no out-of-range index).
"""
import os

from .. import common, langrun, nanoref as nr, xfam
from . import langcommon as lc

LAYERS = ["op_matrix", "effect_order", "layer_F", "layer_D", "layer_A", "layer_S", "layer_E"]


def module_shapes(workdir):
    """Multi-file programs: selective import, aliased import, transitive import, module-level let,
    struct type across modules, same private name in two modules.  Returns [(name, main_path)]."""
    d = os.path.join(workdir, "mods")
    os.makedirs(d, exist_ok=True)
    W = lambda n, s: open(os.path.join(d, n), "w").write(s)
    W("ha.nano", 'let BASE: int = 1000\npub fn hadd(a: int, b: int) -> int {\n    return (+ (+ a b) BASE)\n}\nshadow hadd { assert (== (hadd 1 2) 1003) }\n'
                  'pub fn hname() -> string {\n    return "ha"\n}\nshadow hname { assert true }\nfn priv(a: int) -> int {\n    return (* a 2)\n}\nshadow priv { assert true }\n'
                  'pub fn hdouble(a: int) -> int {\n    return (priv a)\n}\nshadow hdouble { assert true }\n')
    W("hb.nano", 'import "ha.nano" as A\nfn privb(a: int) -> int {\n    return (* a 3)\n}\nshadow privb { assert true }\n'
                  'pub fn htriple(a: int) -> int {\n    return (privb a)\n}\nshadow htriple { assert true }\n'
                  'pub fn hmix(a: int) -> int {\n    return (+ (A.hdouble a) (privb a))\n}\nshadow hmix { assert true }\n')
    # same private name in two modules (the front end currently refuses this; both tools must then agree on refusing)
    W("hc.nano", 'import "ha.nano" as A\nfn priv(a: int) -> int {\n    return (* a 5)\n}\nshadow priv { assert true }\n'
                  'pub fn hfive(a: int) -> int {\n    return (+ (priv a) (A.hdouble a))\n}\nshadow hfive { assert true }\n')
    W("hs.nano", 'pub struct Pt { x: int, y: int }\npub fn mk(a: int, b: int) -> Pt {\n    return Pt { x: a, y: b }\n}\nshadow mk { assert true }\n'
                  'pub fn sum(p: Pt) -> int {\n    return (+ p.x p.y)\n}\nshadow sum { assert true }\n')
    mains = {
        "m_from": 'from "ha.nano" import hadd, hname\nfn main() -> int {\n    (println (hadd 1 2))\n    (println (hname))\n    return 3\n}\nshadow main { assert true }\n',
        "m_alias": 'import "ha.nano" as H\nfn main() -> int {\n    (println (H.hadd 3 4))\n    (println (H.hname))\n    (println (H.hdouble 21))\n    return 4\n}\nshadow main { assert true }\n',
        "m_trans": 'import "hb.nano" as B\nfn main() -> int {\n    (println (B.htriple 5))\n    (println (B.hmix 5))\n    return 5\n}\nshadow main { assert true }\n',
        "m_clash": 'import "hc.nano" as C\nfn main() -> int {\n    (println (C.hfive 2))\n    return 8\n}\nshadow main { assert true }\n',
        "m_two": 'import "ha.nano" as A\nimport "hb.nano" as B\nfn privm(a: int) -> int {\n    return (+ a 100)\n}\nshadow privm { assert true }\nfn main() -> int {\n    (println (privm 1))\n    (println (A.hdouble 1))\n    (println (B.htriple 1))\n    (println (B.hmix 2))\n    return 6\n}\nshadow main { assert true }\n',
        "m_struct": 'from "hs.nano" import Pt, mk, sum\nfn main() -> int {\n    let p: Pt = (mk 3 4)\n    (println (sum p))\n    (println p.x)\n    let q: Pt = Pt { x: 10, y: 20 }\n    (println (sum q))\n    return 7\n}\nshadow main { assert true }\n',
        "m_loop": 'from "ha.nano" import hadd\nfn main() -> int {\n    let mut t: int = 0\n    for i in (range 0 5) {\n        set t (hadd t i)\n    }\n    (println t)\n    return (% t 256)\n}\nshadow main { assert true }\n',
    }
    out = []
    for n, s in sorted(mains.items()):
        W(n + ".nano", s)
        out.append((n, os.path.join(d, n + ".nano")))
    return out


def run(tier):
    rep = common.Report("C01", tier)
    tree, lang, cases, res = lc.run_layers(tier, LAYERS)
    findings = dict((f["id"], f) for f in common.load_findings("C01") + [f for f in common.load_findings("C02") if "C01" in f.get("also", [])])
    byid = dict((c["id"], c) for c in cases)
    judged = rejected = outdom = 0
    outcomes = set()
    for cid in sorted(res, key=lambda k: (len(k), k)):
        r, case = res[cid], byid[cid]
        if r["expected"][0] != "normal":
            outdom += 1
            continue
        v, n = r["vm"], r["native"]
        if lc.is_frontend_reject(v) and lc.is_frontend_reject(n):
            rejected += 1          # not accepted by the front end: outside the property's domain
            continue
        judged += 1
        rep.count("transitions", 2)
        if v[0] == "ok" and n[0] == "ok":
            outcomes.add(common.sha(v[1])[:8])
            if v[1] == n[1]:
                continue
            if "native-unsequenced-effects" in findings and lc.has_unsequenced_effects(case) and lc.same_lines_permuted(n[1], v[1]):
                rep.known_finding("native-unsequenced-effects", findings["native-unsequenced-effects"]["what"])
                continue
            summary = "%s [%s]: stdout differs: vm %r native %r" % (cid, case["layer"], v[1][:100], n[1][:100])
        else:
            bad = "vm" if v[0] != "ok" else "native"
            o = v if v[0] != "ok" else n
            summary = "%s [%s]: %s fails (%s) while the other backend %s: %s" % (cid, case["layer"], bad, o[1], "runs" if (n if bad == "vm" else v)[0] == "ok" else "also fails",
                                                                                 o[2].strip()[-160:].replace("\n", " | "))
            if v[0] != "ok" and n[0] != "ok" and v[1].startswith("vm rc") and n[1].startswith("native run"):
                pass
        rep.violation("c01:" + cid, {"program.nano": langrun.source_of([case]),
                                     "vm.txt": v[1] if v[0] == "ok" else v[1] + "\n" + v[2], "native.txt": n[1] if n[0] == "ok" else n[1] + "\n" + n[2]},
                      summary, "bin/nano_virt program.nano --run > vm.out; bin/nanoc_c program.nano -o p && ./p > native.out; cmp vm.out native.out")
    # ---- exit status family and module shapes: whole-program observations (stdout + exit status)
    singles = []
    for name, src, _want in lc.exit_status_family():
        p = os.path.join(lang.work, name + ".nano")
        with open(p, "w") as f:
            f.write(src)
        singles.append((name, p))
    singles += module_shapes(lang.work)
    for name, path in singles:
        v = lang.vm(path)
        n = lang.native(path)
        judged += 1
        rep.count("transitions", 2)
        if v["rc"] == 1 and n["compile_rc"] != 0 and lc.FRONTEND_REJECT.search(v["err"].decode(errors="replace")) and lc.FRONTEND_REJECT.search((n["compile_err"] + n["compile_out"]).decode(errors="replace")):
            rejected += 1       # refused by the shared front end on both tools: not an accepted program
            judged -= 1
            continue
        ov = (v["rc"], v["out"])
        on = (n["rc"] if n["compile_rc"] == 0 else "compile failed rc=%s" % n["compile_rc"], n["out"])
        if ov != on:
            rep.violation("c01:single:" + name, {"program.nano": open(path).read(), "vm.txt": "exit=%s\n%s" % (ov[0], ov[1].decode(errors="replace")),
                                                 "native.txt": "exit=%s\n%s\n%s" % (on[0], on[1].decode(errors="replace"), n.get("compile_err", b"")[-1500:].decode(errors="replace"))},
                          "%s: vm (exit %s, %r) vs native (exit %s, %r)" % (name, ov[0], ov[1][:60], on[0], on[1][:60]))
        elif v["rc"] not in range(0, 256):
            rep.violation("c01:single:" + name, {"program.nano": open(path).read()}, "%s: abnormal status %s on both backends" % (name, v["rc"]))
    rep.count("states", judged)
    rep.count("traces_validated_against_impl", judged)
    rep.coverage["cases_enumerated"] = len(cases) + len(singles)
    rep.coverage["not_accepted_by_front_end"] = rejected
    rep.coverage["outside_defined_domain"] = outdom
    rep.coverage["distinct_observed_outputs"] = len(outcomes)
    rep.coverage["per_layer"] = dict((l, sum(1 for c in cases if c["layer"] == l)) for l in sorted(set(c["layer"] for c in cases)))
    for l in ("A", "S", "E", "D", "F"):
        c = next((c for c in cases if c["layer"] == l), None)
        if c:
            rep.sample({"layer": l, "id": c["id"], "source": nr.Printer().program(langrun.make_program([c]))[-500:]})
    rep.sample({"layer": "M", "programs": [s[0] for s in singles if s[0].startswith("m_")]})
    rep.assumptions += ["programs stay inside the defined domain (NanoRef-checked: no x/0, INT64_MIN/-1, out-of-range index, empty pop); only int/bool/string/enum values are printed",
                        "layer A (aliasing) uses only operations that cannot fault under value or reference semantics",
                        "X layer (vf/xfam*.py): string escapes, loop control in nested constructs, cond/match sizes, built-in matrix, name resolution matrix, data shapes - each unit's reference text is computed by its family in plain Python"]
    if judged < 500 or len(outcomes) < 50:
        raise common.HarnessError("vacuous C01")
    xfam.judge(rep, "C01", lang, tier)      # text-template families: features outside the typed AST enumerator
    return rep.finish()
