"""C17  Daemon execution is transparent and concurrent clients are isolated.

(A) transparency, sequential and exhaustive over the corpus: every module is run standalone (nano_vm f) and
    through a private real daemon (nano_vm --daemon f, socket/pid paths through hook H2); stdout bytes,
    stderr text and exit status must be equal.
(B) isolation - stateless model checking of the real session code: vmd_mc (#includes the tree's
    vmd_server.c) runs 2 and 3 real client_thread bodies under a baton scheduler and explores EVERY
    schedule with at most `bound` preemptions (scheduling points: socket read/write/close, the client
    count mutex, selected VM instructions through H1, thread start/end).  Each session's reply stream must
    equal the stream the same request gets when served alone.  Plain build for the deep bounds (1.5 ms per
    schedule), ASan+UBSan build at bound 1.
(C) free-running pass under ThreadSanitizer (unsynchronised accesses are invisible to a cooperative
    scheduler): the real nano_vmd (tsan build) serves k = 2, 8, 32 concurrent real clients; any TSan report
    is a violation, and every client must still get its solo result.  This pass detects, it does not enumerate.
"""
import glob
import itertools
import os
import re
import subprocess
import threading
import time

from .. import common, vmd

SCHED_SET = ["s_glob_a", "s_glob_b", "s_err_oob", "s_err_assert", "s_strings", "s_notail", "s_silent", "s_struct"]


def client_run(tree, nvm, daemon=None, timeout=30):
    if daemon is None:
        return common.run([tree.exe("nano_vm"), nvm], timeout=timeout, envx={"PATH": tree.bin + ":" + common.CLEAN_ENV["PATH"]})
    return common.run([tree.exe("nano_vm"), "--daemon", nvm], timeout=timeout, envx=daemon.envx)


def mc_violation(rep, job, res, tag):
    """turn the VIOL lines of one explorer job into grouped violations"""
    names = [os.path.basename(s.split(":")[0])[:-4] + (":" + s.split(":", 1)[1] if ":" in s else "") for s in res["specs"]]
    groups = {}
    for l in res["viol"]:
        kind = re.search(r"kind=(\S+)", l).group(1)
        cl = re.search(r"client=(\d+)", l)
        who = names[int(cl.group(1))] if cl else "-"
        groups.setdefault((kind, who), []).append(l)
    for (kind, who), ls in groups.items():
        sch = re.search(r"schedule=(\S+)", ls[0])
        detail = ""
        got = re.search(r"got=([0-9a-f]*)", ls[0])
        if got and cl:
            o, e, c, wf = vmd.decode_frames(got.group(1))
            so, se, sc, _ = vmd.decode_frames(res["solo"].get(int(re.search(r"client=(\d+)", ls[0]).group(1)), ""))
            detail = " got stdout=%r errors=%r exit=%s; alone: stdout=%r errors=%r exit=%s" % (o[:120], e, c, so[:120], se, sc)
        files = {"job.txt": "tag=%s\nbound=%d\nspecs=%s\nschedule=%s\n" % (tag, res["bound"], " ".join(names), sch.group(1) if sch else "-"),
                 "viol_lines.txt": "\n".join(ls[:50]) + "\n", "stderr.txt": res["stderr"]}
        for s in res["specs"]:
            f = s.split(":")[0]
            if os.path.exists(f):
                files[os.path.basename(f)] = open(f, "rb").read()
        rep.violation("mc:%s:%s:%s" % (kind, who, "+".join(sorted(names))), files,
                      "sessions %s under the scheduler (%s, bound %d): %s for %s, %d schedule(s), first schedule=%s%s" % (
                          " || ".join(names), tag, res["bound"], kind, who, len(ls), sch.group(1)[:80] if sch else "-", detail),
                      "# vmd_mc (vf/probes/vmd_mc.c) built against the tree; VMD_MC_ONLY=<schedule> vmd_mc 0 0 <modules as in job.txt>")


def run(tier):
    rep = common.Report("C17", tier)
    rep.set_deadline(1500 if tier == "quick" else 5400)
    plain = common.build_tree("plain")
    asan = common.build_tree("asan")
    tsan = common.build_tree("tsan")
    mc_plain = vmd.build_mc(plain)
    mc_asan = vmd.build_mc(asan)
    work = os.path.join(common.scratch(), "c17")
    hand = sorted(glob.glob(os.path.join(common.VERIF, "vf/corpus/*.nano")) + glob.glob(os.path.join(common.VERIF, "vf/corpus_vm/*.nano")))
    # exit-status matrix (main's result modulo 256, negative results included) and output-size matrix (ONE print of n
    # characters, n around every buffer size between the VM's stream, the protocol frame and the client's chunking)
    gen = os.path.join(work, "gen")
    os.makedirs(gen, exist_ok=True)
    for v in (0, 1, 7, 127, 128, 255, 256, 257, 65535, 65536, -1, -2, -127, -128, -255, -256, -257, 2147483647, -2147483648, 2147483648, 1099511627779, -9223372036854775807):
        pth = os.path.join(gen, "g_exit_%s.nano" % str(v).replace("-", "m"))
        with open(pth, "w") as f:
            f.write('fn main() -> int {\n    (println "exit-matrix")\n    return %d\n}\nshadow main { assert true }\n' % v)
        hand.append(pth)
    for n in ((10, 4095, 4096, 4097, 8191, 8192, 8193, 16383, 16384, 16385, 24575, 24576, 24577, 32768, 65535, 65536, 65537, 200000) if tier == "quick" else
              tuple(sorted(set([10, 200000, 1048576] + [k * 4096 + d for k in range(1, 20) for d in (-1, 0, 1)])))):
        pth = os.path.join(gen, "g_line_%d.nano" % n)
        with open(pth, "w") as f:
            f.write('fn rep(s: string, n: int) -> string {\n    let mut out: string = ""\n    let mut piece: string = s\n    let mut k: int = n\n'
                    '    while (> k 0) {\n        if (== (%% k 2) 1) { set out (+ out piece) } else {}\n        set piece (+ piece piece)\n        set k (/ k 2)\n    }\n    return out\n}\n'
                    'shadow rep { assert (== (str_length (rep "ab" 3)) 6) }\n'
                    'fn main() -> int {\n    let line: string = (rep "x" %d)\n    (println "before")\n    (println line)\n    (println "after")\n    (print line)\n    (println "")\n    return (%% (str_length line) 200)\n}\nshadow main { assert true }\n' % n)
        hand.append(pth)
    mods = vmd.compile_corpus(plain, os.path.join(work, "mods"), extra_sources=hand)

    # ------------------------------------------------------------------ (A) transparency
    d = vmd.Daemon(plain, os.path.join(work, "dA"))
    try:
        for name in sorted(mods):
            a = client_run(plain, mods[name])
            b = client_run(plain, mods[name], d)
            b2 = client_run(plain, mods[name], d)
            rep.count("transitions", 3)
            rep.count("traces_validated_against_impl", 1)
            if b != b2 and (a == b or a == b2):
                raise common.HarnessError("daemon run of %s is not repeatable: %r vs %r" % (name, b, b2))
            if a != b:
                rep.violation("transparency:" + name, {"module.nvm": open(mods[name], "rb").read(),
                                                       "observations.txt": "standalone: rc=%s\nstdout=%r\nstderr=%r\n\ndaemon: rc=%s\nstdout=%r\nstderr=%r\n" % (a[0], a[1], a[2], b[0], b[1], b[2])},
                              "%s: standalone (rc=%s, %d stdout bytes, stderr %r) differs from daemon (rc=%s, %d stdout bytes, stderr %r)" % (name, a[0], len(a[1]), a[2][:80], b[0], len(b[1]), b[2][:80]),
                              "# bin/nano_vm module.nvm   vs   NANOLANG_VMD_SOCKET=/tmp/x.sock NANOLANG_VMD_PIDFILE=/tmp/x.pid bin/nano_vm --daemon module.nvm")
            if not d.alive():
                raise common.HarnessError("daemon died during the transparency pass: " + d.stderr_text()[-500:])
        rep.coverage["transparency_modules"] = len(mods)
        solo_obs = {n: client_run(plain, mods[n]) for n in mods}
    finally:
        d.stop()

    # ------------------------------------------------------------------ (B) scheduler
    S = [mods[n] for n in SCHED_SET]
    pairs = list(itertools.combinations_with_replacement(S, 2))
    triples = list(itertools.combinations(S, 3)) + [(S[0], S[0], S[1]), (S[2], S[3], S[2])]
    if tier == "quick":
        jobs = [(mc_plain, 2, 0, list(p), None, 1200) for p in pairs]
        jobs += [(mc_plain, 1, 0, list(t), None, 1200) for t in triples]
        jobs += [(mc_asan, 1, 0, list(p), {"ASAN_OPTIONS": "detect_leaks=0"}, 1200) for p in pairs]
        jobs += [(mc_plain, 1, 0, list(p), {"VMD_MC_MALLOC": "1"}, 1200) for p in pairs]     # + every allocation is a point
    else:
        jobs_m = [(mc_plain, 2, 0, list(p), {"VMD_MC_MALLOC": "1"}, 3000) for p in pairs]
        jobs = []
        for p in pairs:      # bound 3, sharded 4 ways so that the pool stays busy
            jobs += [(mc_plain, 3, 0, list(p), {"VMD_MC_SHARD": "%d/4" % k}, 3000) for k in range(4)]
        for t in triples:
            jobs += [(mc_plain, 2, 0, list(t), {"VMD_MC_SHARD": "%d/4" % k}, 3000) for k in range(4)]
        jobs += [(mc_asan, 2, 0, list(p), {"ASAN_OPTIONS": "detect_leaks=0"}, 3000) for p in pairs]
        jobs += jobs_m
    execs = 0
    traces = 0
    maxpts = 0
    outcomes = set()
    njobs = 0
    for res in common.pimap(vmd.run_mc, jobs):
        njobs += 1
        if res["rc"] != 0 or res["stat"] is None:
            raise common.HarnessError("vmd_mc failed rc=%s specs=%s stderr=%s" % (res["rc"], res["specs"], res["stderr"][-800:]))
        if res["harness"]:
            raise common.HarnessError("vmd_mc harness problem: %s" % res["harness"][:3])
        st = res["stat"]
        execs += st["executions"]; traces += st["distinct_traces"]; maxpts = max(maxpts, st["max_points"])
        if st["capped"]:
            rep.exhaustive = False
        if res["viol"]:
            mc_violation(rep, None, res, "threads=%d" % st["threads"])
    rep.count("states", execs)
    rep.count("transitions", execs)
    rep.count("traces_validated_against_impl", execs)
    rep.coverage["schedules_explored"] = execs
    rep.coverage["explorer_jobs"] = njobs
    rep.coverage["max_scheduling_points_in_one_schedule"] = maxpts
    rep.coverage["distinct_choice_traces_observed"] = traces
    rep.sample({"sessions": ["s_glob_a", "s_glob_b"], "preemption_bound": 2 if tier == "quick" else 3, "schedule": "1,0,0,0,0,1,0,0 (choice index per scheduling point; 0 = keep running the current thread)"})

    # ------------------------------------------------------------------ (C) TSan free-running pass
    dt = vmd.Daemon(tsan, os.path.join(work, "dT"), extra_env={"TSAN_OPTIONS": "halt_on_error=0 second_deadlock_stack=1"})
    names = sorted(n for n in mods if n not in ("s_extern", "s_ffi_holder"))
    mism = []
    try:
        rounds = [(2, 6), (8, 3), (32, 2)] if tier == "quick" else [(2, 20), (8, 10), (32, 6), (64, 3)]
        for k, reps in rounds:
            for r in range(reps):
                batch = [names[(i + r) % len(names)] for i in range(k)]
                results = [None] * k

                def one(i):
                    results[i] = client_run(plain, mods[batch[i]], dt, timeout=120)
                ths = [threading.Thread(target=one, args=(i,)) for i in range(k)]
                for t in ths:
                    t.start()
                for t in ths:
                    t.join()
                rep.count("transitions", k)
                for i in range(k):
                    if results[i] != solo_obs[batch[i]]:
                        mism.append((batch[i], k, results[i]))
        # sessions whose co-process carries state (cwd after chdir) next to short FFI sessions that come and go:
        # a session must keep talking to ITS co-process for its whole life
        for r in range(3 if tier == "quick" else 10):
            k = 7
            batch = ["s_ffi_holder"] + ["s_extern"] * (k - 1)
            results = [None] * k

            def one2(i):
                if i:
                    import time as _t
                    _t.sleep(0.02 * i)
                results[i] = client_run(plain, mods[batch[i]], dt, timeout=120)
            ths = [threading.Thread(target=one2, args=(i,)) for i in range(k)]
            for t in ths:
                t.start()
            for t in ths:
                t.join()
            rep.count("transitions", k)
            for i in range(k):
                if results[i] != solo_obs[batch[i]]:
                    mism.append((batch[i], k, results[i]))
        # backlog bursts: K connections are ESTABLISHED before any request is sent, so the accept loop takes them back to
        # back (the window between accept and the session thread reading its arguments is hit on every iteration);
        # every session must still get its own program's reply
        burst_names = [n for n in names if n.startswith("s_")][:8]
        dp = vmd.Daemon(plain, os.path.join(work, "dP"))
        for dmn, label in ((dt, "tsan"), (dp, "plain")):
            for r in range(12 if tier == "quick" else 40):
                if len(mism) >= 8:
                    break       # a broken tree: enough evidence (every unanswered connection costs a timeout)
                K = 32
                batch = [burst_names[(i + r) % len(burst_names)] for i in range(K)]
                socks = []
                try:
                    for i in range(K):
                        for attempt in range(200):      # a full listen backlog answers EAGAIN: an ordinary client retries
                            try:
                                socks.append(dmn.connect(8.0))
                                break
                            except BlockingIOError:
                                time.sleep(0.01)
                        else:
                            raise OSError("listen backlog stayed full")
                    for i in range(K):
                        socks[i].sendall(vmd.frame(vmd.MSG["LOAD_EXEC"], open(mods[batch[i]], "rb").read()))
                    for i in range(K):
                        data, closed = vmd.recv_all(socks[i])
                        o, e, c, wf = vmd.decode_frames(data.hex())
                        want = solo_obs[batch[i]]
                        rep.count("transitions", 1)
                        if c is None or (c & 0xFF) != want[0] or o != want[1]:
                            mism.append((batch[i], "backlog burst of %d on the %s daemon" % (K, label), (c, o[:80], e[:2])))
                except OSError as ex:
                    mism.append((batch[0], "backlog burst of %d on the %s daemon" % (K, label), "connection error: %s" % ex.__class__.__name__))
                finally:
                    for sk in socks:
                        try:
                            sk.close()
                        except OSError:
                            pass
        if not dp.alive():
            rep.violation("plain-daemon-died", {"stderr.txt": dp.stderr_text()[-20000:]}, "the daemon died while serving backlog bursts of 32 connections")
        dp.stop()
        rep.coverage["backlog_burst_sessions"] = 2 * 32 * (12 if tier == "quick" else 40)
        if not dt.alive():
            rep.violation("tsan-daemon-died", {"stderr.txt": dt.stderr_text()[-20000:]}, "tsan-built daemon died while serving concurrent clients")
    finally:
        dt.stop()
    text = dt.stderr_text()
    reports = re.split(r"(?m)^=+\n(?=WARNING: ThreadSanitizer)", text)
    nrep = 0
    for rp in reports:
        if "WARNING: ThreadSanitizer" not in rp:
            continue
        nrep += 1
        kind = re.search(r"WARNING: ThreadSanitizer: ([^\(\n]*)", rp).group(1).strip()
        frames = re.findall(r"#0 (\w+) ", rp)[:2]
        loc = re.search(r"Location is (global '[^']+'|heap block[^\n]*|stack of[^\n]*)", rp)
        rep.violation("tsan:%s:%s:%s" % (kind, ",".join(frames), loc.group(1)[:40] if loc else ""), {"report.txt": rp[:20000]},
                      "ThreadSanitizer in the daemon: %s between %s (%s)" % (kind, " and ".join(frames), loc.group(1) if loc else "?"),
                      "# build with clang -fsanitize=thread; start bin/nano_vmd --foreground; run several bin/nano_vm --daemon x.nvm concurrently")
    for name, k, got in mism[:5]:
        how = ("together with %d concurrent clients" % (k - 1)) if isinstance(k, int) else "in a " + k
        shown = (got[0], got[1][:80], got[2][:80]) if isinstance(got, tuple) and len(got) == 3 and isinstance(got[1], bytes) else got
        rep.violation("free-running:" + name, {"observed.txt": "%s\n%r\nalone: %r\n" % (how, got, solo_obs[name])},
                      "%s served %s by the real daemon: rc/stdout/stderr %r differ from the standalone run %r" % (name, how, shown, (solo_obs[name][0], solo_obs[name][1][:80])))
    rep.coverage["tsan_reports"] = nrep
    rep.coverage["free_running_client_runs"] = sum(k * r for k, r in rounds)
    rep.assumptions += [
        "an additional set of jobs makes every malloc/calloc of a session thread a scheduling point (bound 1 quick, 2 thorough)",
        "scheduling points: read/write/close on session sockets, g_client_count_mutex lock/unlock, VM instructions PRINT*/ASSERT/LOAD_GLOBAL/STORE_GLOBAL/CALL/RET/PUSH_STR/STR_CONCAT/STR_FROM_INT/ADD/ARR_LITERAL/ARR_PUSH/STRUCT_LITERAL, thread start/end; code between two points runs atomically (compiler / hardware reorderings are not modelled)",
        "requests are written into the socket before the sessions start and replies are drained afterwards, so no operation blocks; one forked process per schedule, so process-wide lazy state starts fresh in every schedule",
        "the TSan pass and the k-client runs sample OS schedules; only the scheduler pass is exhaustive (up to its preemption bound)",
        "session programs: %s" % ", ".join(SCHED_SET),
    ]
    if execs < 1000 or traces < 100:
        raise common.HarnessError("vacuous exploration: %d schedules, %d distinct traces" % (execs, traces))
    return rep.finish()


def replay(path):
    plain = common.build_tree("plain")
    mc = vmd.build_mc(plain)
    job = dict(l.split("=", 1) for l in open(os.path.join(path, "job.txt")).read().splitlines() if "=" in l)
    specs = []
    for n in job["specs"].split():
        base, _, beh = n.partition(":")
        specs.append(os.path.join(path, base + ".nvm") + (":" + beh if beh else ""))
    res = vmd.run_mc((mc, 0, 0, specs, {"VMD_MC_ONLY": job["schedule"]}, 300))
    print("\n".join(res["viol"]) or "no violation on this schedule", res["stat"])
    if res["viol"]:
        print("VIOLATION property=C17 replay=%s" % path)
        return 1
    return 0
