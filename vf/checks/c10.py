"""C10  Stored and embedded bytecode modules run exactly like the in-memory module.

(a) every corpus program: nano_virt --run  ==  nano_vm file.nvm  ==  native wrapper binary
    (stdout bytes and exit status), and the file is a fixpoint of load->serialize
    (field-wise compare through the probe).
(b) the full product of a structural alphabet of modules built directly through the nvm_*
    API: deserialize(serialize(m)) == m field-by-field, serialize idempotent.
"""
import glob
import os

from .. import common, corpus


def gen_many(path, nfun=40, nstr=100):
    """A program with > 32 functions and > 64 distinct string constants."""
    out = []
    for i in range(nfun):
        out.append('fn g%d(x: int) -> int {\n    (println "fn-%d-says-%s")\n    return (+ x %d)\n}\nshadow g%d { assert true }\n' % (i, i, "z" * (i % 7), i, i))
    out.append("fn main() -> int {\n    let mut t: int = 0\n")
    for i in range(nfun):
        out.append("    set t (g%d t)\n" % i)
    for i in range(nstr):
        out.append('    (println "const-%03d-%s")\n' % (i, "ab" * (i % 5)))
    out.append("    (println t)\n    return (% t 256)\n}\nshadow main { assert true }\n")
    with open(path, "w") as f:
        f.write("".join(out))
    return path


def _observe(args):
    tree_root, vm_exe, virt_exe, src, workdir = args
    base = os.path.join(workdir, os.path.basename(src)[:-5])
    res = {"src": src}
    res["run"] = common.run([virt_exe, src, "--run"], timeout=60, cwd=tree_root)
    rc, o, e = common.run([virt_exe, src, "--emit-nvm", "-o", base + ".nvm"], timeout=60, cwd=tree_root)
    res["emit"] = (rc, o, e)
    if rc == 0:
        res["file"] = common.run([vm_exe, base + ".nvm"], timeout=60, cwd=tree_root)
    rc, o, e = common.run([virt_exe, src, "-o", base + ".w"], timeout=180, cwd=tree_root)
    res["wrapbuild"] = (rc, o, e)
    if rc == 0 and os.path.exists(base + ".w"):
        res["wrap"] = common.run([base + ".w"], timeout=60, cwd=tree_root)
    res["nvm"] = base + ".nvm"
    return res


def run(tier):
    rep = common.Report("C10", tier)
    tree = common.build_tree("asan")
    plain = common.build_tree("plain")      # wrapper binaries are built by the plain toolchain, as a user would
    probe = tree.build_probe(os.path.join(common.VERIF, "vf/probes/nvm_probe.c"), "nvm_probe")
    work = os.path.join(common.scratch(), "c10")
    os.makedirs(work, exist_ok=True)

    # ---------------- (b) structural product
    rc, out, err = common.run([probe, "c10b"], timeout=1800)
    out = out.decode(errors="replace")
    stat = [l for l in out.splitlines() if l.startswith("STAT")]
    if rc != 0 or not stat:
        rep.violation("c10b-crash", {"stdout.txt": out[-20000:], "stderr.txt": err.decode(errors="replace")[-20000:]},
                      "structural round-trip product aborted rc=%s (sanitizer report in nvm_serialize/nvm_deserialize)" % rc)
        nmods = 0
    else:
        kv = dict(x.split("=") for x in stat[0].split()[1:])
        nmods = int(kv["modules"])
    fl = [l for l in out.splitlines() if l.startswith("FAIL")]
    groups = {}
    for l in fl:
        groups.setdefault(l.split(" : ")[-1].split("(")[0][:40], []).append(l)
    for k, ls in groups.items():
        rep.violation("c10b:" + k, {"fails.txt": "\n".join(ls) + "\n"}, "structural round trip: %s e.g. %s" % (k, ls[0]))
    rep.count("states", nmods)
    rep.count("transitions", nmods * 3)
    rep.coverage["api_built_modules"] = nmods
    rep.sample({"api_module": "strings=['a',''] functions=[profile 2 (arity 0x1234, offset 0x12345678, ...)] imports=[3 params] debug=2 code=4097 flags=5 entry=0xFFFFFFFF"})

    # ---------------- (a) compiler-produced modules
    srcs = corpus.hand_programs() + sorted(glob.glob(os.path.join(common.VERIF, "vf/corpus_vm/*.nano")))
    srcs.append(gen_many(os.path.join(work, "g_many.nano")))
    # batches of enumerated programs (every layer of the shared enumerator) as further compiler-produced modules
    from .. import langrun
    from . import langcommon
    for layer in ("layer_S", "layer_F", "layer_D", "layer_A", "layer_E", "op_matrix", "effect_order"):
        cases = langcommon.all_cases("quick", [layer])
        nb = 2 if tier == "quick" else 12
        for k in range(nb):
            part = cases[k * 40:(k + 1) * 40] if layer == "layer_A" else cases[k * 100:(k + 1) * 100]
            if not part:
                break
            pth = os.path.join(work, "e_%s_%d.nano" % (layer, k))
            with open(pth, "w") as f:
                f.write(langrun.source_of(part))
            srcs.append(pth)
    jobs = [(plain.root, plain.exe("nano_vm"), plain.exe("nano_virt"), s, work) for s in srcs]
    results = common.pmap(_observe, jobs)
    nvms = []
    for r in results:
        name = os.path.basename(r["src"])
        if r["emit"][0] != 0 or "file" not in r:
            if name.startswith("e_layer") or name.startswith("e_op") or name.startswith("e_eff"):
                rep.count("enumerator_batches_refused_by_front_end")     # a batch holding a case of C02's known finding
                continue
            raise common.HarnessError("corpus program %s does not compile: %s" % (name, r["emit"][2][-500:]))
        ref = (r["run"][0], r["run"][1])
        obs = {"--run": ref, "nano_vm file": (r["file"][0], r["file"][1])}
        if "wrap" in r:
            obs["wrapper"] = (r["wrap"][0], r["wrap"][1])
        else:
            obs["wrapper"] = ("wrapper build failed rc=%s" % r["wrapbuild"][0], r["wrapbuild"][2][-300:])
        # exit statuses are compared modulo 256 (what a process can report)
        norm = {k: ((v[0] % 256) if isinstance(v[0], int) and v[0] >= 0 else v[0], v[1]) for k, v in obs.items()}
        rep.count("traces_validated_against_impl", len(norm))
        rep.count("transitions", len(norm))
        if len(set(norm.values())) != 1:
            txt = "".join("%s: exit=%s stdout=%r\n" % (k, v[0], v[1][:2000]) for k, v in norm.items())
            rep.violation("c10a:" + name, {"program.nano": open(r["src"]).read(), "observations.txt": txt},
                          "%s: run / file / wrapper disagree: %s" % (name, {k: v[0] for k, v in norm.items()}),
                          "# build /repo; then compare: bin/nano_virt program.nano --run ; bin/nano_virt program.nano --emit-nvm -o p.nvm && bin/nano_vm p.nvm ; bin/nano_virt program.nano -o w && ./w")
        nvms.append(r["nvm"])
        rep.sample({"program": name, "exit": norm["--run"][0], "stdout_bytes": len(ref[1])})
    rmods, _sk = corpus.repo_modules(tree, os.path.join(work, "rmods"))
    allm = nvms + [m for _s, m in rmods]
    rc, out, err = common.run([probe, "rt"] + allm, timeout=900)
    out = out.decode(errors="replace")
    if rc != 0:
        rep.violation("rt-crash", {"stdout.txt": out[-20000:], "stderr.txt": err.decode(errors="replace")[-20000:]}, "file round trip aborted rc=%s" % rc)
    for l in out.splitlines():
        if l.startswith("FAIL"):
            f = l.split()[2]
            files = {"fail.txt": l + "\n"}
            if os.path.exists(f):
                files["module.nvm"] = open(f, "rb").read()
            rep.violation("rt:" + os.path.basename(f), files, l)
    rep.count("states", len(allm))
    rep.count("transitions", len(allm) * 3)
    rep.coverage["compiler_modules_roundtripped"] = len(allm)
    rep.coverage["programs_run_three_ways"] = len(srcs)
    rep.assumptions += ["exit statuses compared modulo 256", "observations are stdout bytes and exit status (the property's 'output' and 'exit status')",
                        "structural alphabet: 6 string sets x function lists (<=3 of 4 profiles) x import lists (<=2 of 3 profiles) x 0-2 debug entries x 4 code lengths x 8 flag values x 3 entry points"]
    if nmods and nmods < 1000:
        raise common.HarnessError("vacuous structural product")
    return rep.finish()
