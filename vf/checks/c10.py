"""C10  Stored and embedded bytecode modules run exactly like the in-memory module.

(a) every corpus program: nano_virt --run  ==  nano_vm file.nvm  ==  native wrapper binary
    (stdout bytes and exit status), and the file is a fixpoint of load->serialize
    (field-wise compare through the probe).
(b) the full product of a structural alphabet of modules built directly through the nvm_*
    API: deserialize(serialize(m)) == m field-by-field, serialize idempotent.
(c) SIZE BOUNDARIES of the container, two ways:
    (c1) modules built through the nvm_* API (vf/probes/c10_probe.c `sizes`): every table - pooled strings,
         one long string, functions, code bytes, imports, parameters of one import, debug entries - swept
         over {0} u {2^k-1, 2^k, 2^k+1} up to a per-table bound (quick: 8193 strings, 2^20 string bytes,
         65537 functions / imports / debug entries, 4 MiB code; thorough: 65537 strings, 16 MiB string,
         2^20 functions / debug entries, 2^18 imports, 64 MiB code) with the other tables at two base
         settings, plus the full product of a reduced list ({0,1,513,4097}; thorough {0,1,2,257,513,1025,
         4097}) over strings x functions x imports x debug x {0, 65537} code bytes x {no, one 65536-byte}
         long string.  Oracle: what was built is what was asked, deserialize(serialize(m)) == m field by
         field from an exact-size buffer, serialize idempotent.
    (c2) programs GENERATED so that the module the real compiler emits has a table size on / around a
         power of two: function-table entries 1..513 from 1..512 top-level definitions in three shapes
         (main last, main first, with a global = synthetic __init__; 513 definitions: refused) and
         2^k-1, 2^k, 2^k+1 entries for 9 <= k <= 12 (thorough: k <= 15) by NESTED functions on top of 512
         top-level ones (65537: the parser gives up); pooled strings 2^k-1, 2^k, 2^k+1 for k <= 13
         (thorough: k <= 16, i.e. 65535..65537); one literal of 0, 1, 255..257, 65535..65537 bytes
         (thorough: 2^20, 2^20+1); code bytes / main's code offset / a loop body across 2^15, 2^16, 2^17
         (thorough: 2^20) hit exactly through a mix, calibrated on the tree under test, of a 16-byte and
         a 7-byte statement; 1, 2, 31..33, 255..257, 300 extern declarations with the one that is called
         first or last.  The achieved sizes are read back from the emitted file (probe `info`) and the
         boundaries the family exists for must have been reached (vacuity guard).  Oracle: as (a) - three
         ways of running agree on stdout, exit status and stderr class, and the file round-trips.
(d) EXIT STATUS AND OUTPUT AFTER A RUNTIME ERROR: the full product  error kind (failed assert, at /
    array_set / array_remove_at out of range, array_pop of an empty array, call depth, unresolvable extern,
    and a control that does not fail) x place (main, callee, callee of callee, loop in main, loop in callee,
    second call of the same function, global initialiser) x what the frame holds when it happens (last local
    an int 0, 1, 7, 255, 256, -1; a string; a bool; nothing declared; a pending int operand 0 / 7 / 256 of
    an unfinished addition) x output before it (none, a line, an unterminated line, 90 KB).  Oracle: the
    three ways agree on stdout bytes, exit status and stderr class (no runtime error / runtime error with
    the VM's message / module refused).  Quick tier: 8 kinds x 5 places (main, callee of callee, loop,
    second call, global initialiser) x 8 frame states (int 0, 7, 256, -1; string; none; pending 0, 7) x
    2 prefixes (line, unterminated line) = 580 programs; thorough: the whole product, 2436 programs.
The generated families run first; a disagreement is reported only after a program of its signature group,
re-run alone twice, shows it both times.  Vacuity guards: family sizes, boundaries reached, every non-control
program ends in a runtime error under --run, >= 5 distinct VM messages, outcomes not all alike.
"""
import glob
import os
import time

from .. import common, corpus


def gen_many(path, nfun=40, nstr=100):
    """A program with > 32 functions and > 64 distinct string constants."""
    out = []
    for i in range(nfun):
        out.append('fn g%d(x: int) -> int {\n    (println "fn-%d-says-%s")\n    return (+ x %d)\n}\nshadow g%d { assert true }\n' % (i, i, "z" * (i % 7), i, i))
    out.append("fn main() -> int {\n    let mut t: int = 0\n")
    for i in range(nfun):
        out.append("    set t (g%d t)\n" % i)
    for i in range(nstr):
        out.append('    (println "const-%03d-%s")\n' % (i, "ab" * (i % 5)))
    out.append("    (println t)\n    return (% t 256)\n}\nshadow main { assert true }\n")
    with open(path, "w") as f:
        f.write("".join(out))
    return path


# ===================================================================== (c2) generated size-boundary programs
TAIL = "shadow main { assert true }\n"


def pow2_around(lo_k, hi_k):
    out = []
    for k in range(lo_k, hi_k + 1):
        for d in (-1, 0, 1):
            v = (1 << k) + d
            if v >= 1 and v not in out:
                out.append(v)
    return out


FN_SHAPES = ("plain", "mainfirst", "glob")     # a program without main is refused by the type checker


def gen_functions(nuser, shape):
    """nuser `fn` definitions (main and the global's initialiser included when the shape has them); helpers h0..
    are called at the first, middle and last table positions, so a wrong index -> entry mapping changes the
    output.  None when the shape needs more definitions than nuser."""
    has_main = True
    has_glob = shape == "glob"
    nh = nuser - (1 if has_main else 0) - (1 if has_glob else 0)
    if nh < 0:
        return None
    helpers = "".join("fn h%d(x: int) -> int { return (+ x %d) }\nshadow h%d { assert (== (h%d 0) %d) }\n" % (i, i + 1, i, i, i + 1)
                      for i in range(nh))
    glob_ = ""
    if has_glob:
        # the initialiser runs in __init__ and prints, so shapes without main still have output
        glob_ = ("fn ginit(x: int) -> int {\n    (println \"init\")\n    (println x)\n    return (* x 2)\n}\nshadow ginit { assert true }\n"
                 "let base: int = (ginit %d)\n" % (nh + 5))
    main = ["fn main() -> int {\n    let mut t: int = 3\n"]
    if has_glob:
        main.append("    set t (+ t base)\n")
    for i in sorted(set(i for i in (0, 1, nh // 2, nh - 2, nh - 1) if 0 <= i < nh)):
        main.append("    set t (+ (* t 3) (h%d t))\n    (println t)\n" % i)
    main.append('    (println "done")\n    return (% t 251)\n}\n' + TAIL)
    main = "".join(main)
    if shape == "mainfirst":
        return main + helpers
    return glob_ + helpers + (main if has_main else "")


def gen_nested(total, shape="plain"):
    """More table entries than the compiler's 512 top-level functions: 512 (or 511 + the global's initialiser)
    top-level definitions and total-512 NESTED functions, at most 200 per hosting helper (a nested function
    is a local of its host); every host calls its first and last nested function and prints the results."""
    top = 512
    extra = total - top - (1 if shape == "glob" else 0)      # __init__ is one more entry
    txt = gen_functions(top, shape)
    if extra <= 0:
        return txt
    host = 0
    calls = []
    while extra > 0:
        n = min(200, extra)
        old = "fn h%d(x: int) -> int { return (+ x %d) }\n" % (host, host + 1)
        if old not in txt:
            raise common.HarnessError("gen_nested: no helper %d to host nested functions" % host)
        body = "".join("    fn n%d_%d(y: int) -> int { return (+ (* y 2) %d) }\n" % (host, i, i) for i in range(n))
        body += "    (println (n%d_0 x))\n    (println (n%d_%d x))\n" % (host, host, n - 1)
        txt = txt.replace(old, "fn h%d(x: int) -> int {\n%s    return (+ x %d)\n}\n" % (host, body, host + 1))
        calls.append("    (println (h%d 4))\n" % host)
        extra -= n
        host += 1
    return txt.replace('    (println "done")\n', "".join(calls) + '    (println "done")\n')


def gen_strings(k):
    """k distinct string literals; prints a checksum over all of them and the first / middle / last two,
    so a wrong index -> content mapping at the boundary changes the output."""
    out = ["fn main() -> int {\n    let mut n: int = 0\n"]
    for i in range(k):
        out.append('    set n (+ n (str_length "q%d%s"))\n' % (i, "_" * (i % 3)))
    for i in sorted(set(x for x in (0, k // 2, k - 2, k - 1) if 0 <= x < k)):
        out.append('    (println "q%d%s")\n' % (i, "_" * (i % 3)))
    out.append("    (println n)\n    return (% n 200)\n}\n" + TAIL)
    return "".join(out)


def gen_longstring(L):
    s = "".join(chr(97 + (i * 7 + (i >> 8)) % 26) for i in range(L))
    return ('fn main() -> int {\n    let s: string = "%s"\n    (println (str_length s))\n    (println s)\n    (println "end")\n'
            '    return (%% (str_length s) 199)\n}\n' % s) + TAIL


STMT_A = "    set t (+ t 1)\n"        # 16 code bytes on the unchanged tree
STMT_B = "    set b (not b)\n"        # 7 code bytes


def gen_code(shape, k, j):
    """k statements A and j statements B in: the body of main (`bigmain`), a function compiled before main so
    that main's code offset moves (`split`), the body of a two-iteration loop (`loop`)."""
    body = STMT_A * k + STMT_B * j
    if shape == "bigmain":
        return ("fn main() -> int {\n    let mut t: int = 3\n    let mut b: bool = true\n" + body +
                "    if b { (println t) } else { (println (- 0 t)) }\n    return (% t 251)\n}\n" + TAIL)
    if shape == "split":
        return ("fn pad(x: int) -> int {\n    let mut t: int = x\n    let mut b: bool = true\n" + body +
                "    if b { return t } else { return (- 0 t) }\n}\nshadow pad { assert true }\n"
                "fn main() -> int {\n    let r: int = (pad 3)\n    (println r)\n    (println \"after pad\")\n    return (% (+ r 1000000) 251)\n}\n" + TAIL)
    if shape == "loop":
        return ("fn main() -> int {\n    let mut t: int = 3\n    let mut b: bool = true\n    let mut i: int = 0\n    while (< i 2) {\n" + body +
                "        set i (+ i 1)\n    }\n    if b { (println t) } else { (println (- 0 t)) }\n    return (% t 251)\n}\n" + TAIL)
    raise common.HarnessError(shape)


def gen_imports(n, callpos):
    """n extern declarations; exactly one (libm's sqrt) is called and sits first or last in the import table."""
    decl = []
    for i in range(n - 1):
        decl.append("extern fn zz_ext_%d(%s) -> int\n" % (i, ", ".join("p%d: int" % q for q in range(i % 5))))
    sq = "extern fn sqrt(x: float) -> float\n"
    decl = [sq] + decl if callpos == "first" else decl + [sq]
    return "".join(decl) + 'fn main() -> int {\n    (println (sqrt 16.0))\n    (println "imports")\n    return 5\n}\n' + TAIL


# ===================================================================== (d) runtime-error programs
TRAP_KINDS = {
    # name: (top-level declarations, set-up statements, trapping form, is it an int expression)
    "assert":  ("", "", "assert (== tv 99)", False),
    "at":      ("", "let xs: array<int> = [1, 2]\n", "(at xs 9)", True),
    "aset":    ("", "let mut xs: array<int> = [1, 2]\n", "(array_set xs 9 1)", False),
    "aremove": ("", "let mut xs: array<int> = [1, 2]\n", "(array_remove_at xs 9)", False),
    "pop":     ("", "let mut xs: array<int> = []\n", "(array_pop xs)", True),
    "depth":   ("fn down(n: int) -> int {\n    if (== n 0) { return 0 } else {}\n    return (+ 1 (down (- n 1)))\n}\nshadow down { assert true }\n",
                "", "(down 100000)", True),
    "ffi":     ("extern fn zz_no_such_function(x: int) -> int\n", "", "(zz_no_such_function 3)", True),
    "control": ("", "let xs: array<int> = [1, 2]\n", "(at xs 1)", True),
}
TRAP_WHERE = ("main", "callee", "callee2", "loop", "loop_callee", "second_call", "init")
TRAP_OUT = ("none", "line", "partial", "big")
STACK_LOCAL = {"i0": "let last: int = 0\n", "i1": "let last: int = 1\n", "i7": "let last: int = 7\n", "i255": "let last: int = 255\n",
               "i256": "let last: int = 256\n", "im1": "let last: int = (- 0 1)\n", "str": 'let last: string = "tail"\n',
               "bool": "let last: bool = true\n", "none": ""}
STACK_PENDING = {"p0": 0, "p7": 7, "p256": 256}


def trap_alphabet(tier):
    if tier == "quick":
        return (sorted(TRAP_KINDS), ("main", "callee2", "loop", "second_call", "init"),
                ("i0", "i7", "i256", "im1", "str", "none", "p0", "p7"), ("line", "partial"))
    return (sorted(TRAP_KINDS), TRAP_WHERE, tuple(STACK_LOCAL) + tuple(STACK_PENDING), TRAP_OUT)


def gen_trap(kind, where, stack, out):
    """None when the combination does not exist (a pending operand needs an expression form)."""
    decls, setup, form, is_expr = TRAP_KINDS[kind]
    if stack in STACK_PENDING:
        if not is_expr:
            return None
        # the string local keeps the slot below the pending operand from being an int
        body = setup + 'let last: string = "tail"\n' + "let w: int = (+ %d %s)\n(println w)\n" % (STACK_PENDING[stack], form)
    else:
        body = setup + STACK_LOCAL[stack] + (("let w: int = %s\n(println w)\n" % form) if is_expr else (form + "\n"))
    body = "let tv: int = 5\n" + body + '(println "after")\n'
    outs = {"none": "", "line": '(println "before the error")\n', "partial": '(println "first")\n(print "unterminated ")\n',
            "big": 'let mut oi: int = 0\nwhile (< oi 3000) {\n    (println "0123456789abcdefghijklmnopqrs")\n    set oi (+ oi 1)\n}\n'}[out]
    body = outs + body

    def ind(txt, n):
        return "".join(" " * n + l + "\n" for l in txt.splitlines())

    def fn(name, inner, ret="return (+ a 1)"):
        return "fn %s(a: int) -> int {\n%s    %s\n}\nshadow %s { assert true }\n" % (name, inner, ret, name)
    loop = lambda inner: ("    let mut li: int = 0\n    while (< li 5) {\n        if (== li 3) {\n" + ind(inner, 12) +
                          "        } else {}\n        set li (+ li 1)\n    }\n")
    main_tail = '    (println "main ends")\n    return 7\n}\n' + TAIL
    if where == "main":
        prog = "fn main() -> int {\n" + ind(body, 4) + main_tail
    elif where == "loop":
        prog = "fn main() -> int {\n" + loop(body) + main_tail
    elif where == "callee":
        prog = fn("f1", ind(body, 4)) + 'fn main() -> int {\n    (println "main starts")\n    let r: int = (f1 5)\n    (println r)\n' + main_tail
    elif where == "loop_callee":
        prog = fn("f1", loop(body)) + 'fn main() -> int {\n    (println "main starts")\n    let r: int = (f1 5)\n    (println r)\n' + main_tail
    elif where == "callee2":
        prog = (fn("f2", ind(body, 4)) + fn("f1", '    let mid: int = (f2 (+ a 1))\n    (println mid)\n', "return (+ mid 1)") +
                'fn main() -> int {\n    (println "main starts")\n    let r: int = (f1 5)\n    (println r)\n' + main_tail)
    elif where == "second_call":
        prog = (fn("f1", "    if (== a 2) {\n" + ind(body, 8) + "    } else {}\n") +
                'fn main() -> int {\n    (println (f1 1))\n    (println (f1 2))\n' + main_tail)
    elif where == "init":
        prog = fn("f1", ind(body, 4)) + "let G: int = (f1 5)\n" + "fn main() -> int {\n    (println G)\n" + main_tail
    else:
        raise common.HarnessError(where)
    return decls + prog


# ===================================================================== observation
def _observe(args):
    tree_root, vm_exe, virt_exe, src, workdir = args[:5]
    tmul = args[5] if len(args) > 5 else 1
    base = os.path.join(workdir, os.path.basename(src)[:-5])
    res = {"src": src}
    res["run"] = common.run([virt_exe, src, "--run"], timeout=40 * tmul, cwd=tree_root)
    rc, o, e = common.run([virt_exe, src, "--emit-nvm", "-o", base + ".nvm"], timeout=40 * tmul, cwd=tree_root)
    res["emit"] = (rc, o, e)
    if rc == 0:
        res["file"] = common.run([vm_exe, base + ".nvm"], timeout=40 * tmul, cwd=tree_root)
    rc, o, e = common.run([virt_exe, src, "-o", base + ".w"], timeout=120 * tmul, cwd=tree_root)
    res["wrapbuild"] = (rc, o, e)
    if rc == 0 and os.path.exists(base + ".w"):
        res["wrap"] = common.run([base + ".w"], timeout=40 * tmul, cwd=tree_root)
        os.unlink(base + ".w")
    res["nvm"] = base + ".nvm"
    return res


def err_class(stderr):
    """stderr class: ('none',) / ('runtime error', message of the VM) / ('module refused',).
    nano_virt --run and the wrapper print `runtime error: <message>`; nano_vm prints `Runtime error: <kind>`
    and the message on the next line.  Anything else on stderr (compiler warnings of --run) is not compared."""
    lines = [l.strip() for l in stderr.decode(errors="replace").splitlines() if l.strip()]
    for i, l in enumerate(lines):
        low = l.lower()
        if low.startswith("runtime error:"):
            msg = l[len("runtime error:"):].strip()
            if l.startswith("Runtime error:") and i + 1 < len(lines):
                msg = lines[i + 1]
            return ("runtime error", msg)
        if "invalid .nvm" in low or "failed to deserialize" in low or "cannot load" in low:
            return ("module refused",)
    return ("none",)


def three_ways(r):
    """name -> (exit status mod 256, stdout bytes, stderr class) for the three ways of running one program"""
    obs = {"--run": r["run"], "nano_vm file": r["file"]}
    if "wrap" in r:
        obs["wrapper"] = r["wrap"]
    else:
        obs["wrapper"] = ("wrapper build failed rc=%s" % r["wrapbuild"][0], r["wrapbuild"][2][-300:], b"")
    norm = {}
    for k, v in obs.items():
        rc = (v[0] % 256) if isinstance(v[0], int) and v[0] >= 0 else v[0]
        norm[k] = (rc, v[1], err_class(v[2]) if isinstance(v[2], bytes) else ("none",))
    return norm


def describe(norm):
    return "".join("%s: exit=%s stderr-class=%s stdout(%d bytes)=%r\n" % (k, v[0], "/".join(v[2]), len(v[1]), v[1][:1500]) for k, v in norm.items())


def disagreement(norm):
    """'' when the three agree, else a signature: which way deviates from --run in which observable"""
    ref = norm["--run"]
    sig = []
    for k in ("nano_vm file", "wrapper"):
        v = norm[k]
        what = [n for n, a, b in (("exit", ref[0], v[0]), ("stdout", ref[1], v[1]), ("stderr-class", ref[2], v[2])) if a != b]
        if what:
            sig.append("%s differs in %s" % (k, "+".join(what)))
    return "; ".join(sig)


REPLAY_SH = ("# build /repo; then compare stdout, exit status and the error message of:\n"
             "#   bin/nano_virt program.nano --run\n#   bin/nano_virt program.nano --emit-nvm -o p.nvm && bin/nano_vm p.nvm\n"
             "#   bin/nano_virt program.nano -o w && ./w\ncd /verif && ./check C10 --replay \"$(dirname \"$0\")\"")


def run_generated(rep, plain, work, family, progs, tmul=1):
    """progs: list of (name, text, meta).  Writes them, observes them three ways in parallel, re-observes every
    disagreement / timeout alone, reports violations grouped by signature.  Returns list of result dicts."""
    d = os.path.join(work, family)
    os.makedirs(d, exist_ok=True)
    jobs = []
    for name, text, _m in progs:
        p = os.path.join(d, name + ".nano")
        with open(p, "w") as f:
            f.write(text)
        jobs.append((plain.root, plain.exe("nano_vm"), plain.exe("nano_virt"), p, d, tmul))
    results = common.pmap(_observe, jobs)
    groups = {}
    out = []
    for (name, text, meta), job, r in zip(progs, jobs, results):
        r["name"], r["meta"], r["text"], r["job"] = name, meta, text, job
        out.append(r)
        if r["emit"][0] != 0 or "file" not in r:
            r["refused"] = True
            rep.count("generated_programs_refused_by_front_end")
            continue
        norm = three_ways(r)
        r["norm"] = norm
        rep.count("traces_validated_against_impl", len(norm))
        rep.count("transitions", len(norm))
        sig = disagreement(norm)
        if any(v[0] == "timeout" for v in norm.values()) or r["wrapbuild"][0] == "timeout":
            sig = "timeout in the pool; " + sig
        if sig:
            groups.setdefault(sig, []).append(r)
    for sig, members in sorted(groups.items()):
        # A verdict needs the same disagreement twice in a row from the program run ALONE (ten times the time limit
        # after a timeout).  Members of one signature group are re-run until two are confirmed (one after a timeout);
        # the others are listed as members of the confirmed group.
        slow = sig.startswith("timeout")
        confirmed = []
        for r in members[:6]:
            sigs = []
            for _ in range(2):
                r2 = _observe(r["job"][:5] + (tmul * (10 if slow else 2),))
                if r2["emit"][0] != 0 or "file" not in r2:
                    raise common.HarnessError("%s compiled in the pool and not alone: %s" % (r["name"], r2["emit"][2][-300:]))
                n2 = three_ways(r2)
                sigs.append(disagreement(n2))
            if sigs[0] != sigs[1]:
                raise common.HarnessError("%s: unstable observation: %r in the pool, then %r, then %r alone" % (r["name"], sig, sigs[0], sigs[1]))
            if not sigs[1]:
                rep.count("disagreements_not_reproduced_alone")
                r["norm"] = n2
                continue
            r["norm"] = n2
            confirmed.append((r, sigs[1]))
            if len(confirmed) >= (1 if slow else 2):
                break
        if not confirmed:
            if len(members) > 6:
                raise common.HarnessError("%s: %d programs disagreed in the pool (%s), none of the first 6 does alone" % (family, len(members), sig))
            continue
        r, sig2 = confirmed[0]
        files = {"members.txt": "".join("%s%s\n" % (m["name"], "  (confirmed alone, twice)" if any(m is c[0] for c in confirmed) else "") for m in members),
                 "program.nano": r["text"], "observations.txt": describe(r["norm"])}
        for r3, _s in confirmed[1:]:
            files["more_%s.nano" % r3["name"]] = r3["text"]
            files["more_%s.observations.txt" % r3["name"]] = describe(r3["norm"])
        rep.violation("c10-%s:%s" % (family, sig2), files,
                      "%s: %d generated program(s), e.g. %s: %s  %s" % (family, len(members), r["name"], sig2,
                                                                          {k: (v[0], "/".join(v[2])) for k, v in r["norm"].items()}), REPLAY_SH)
    return out


def replay(path):
    """Re-run the program of one stored violation against a fresh build of the tree."""
    p = os.path.join(path, "program.nano")
    if not os.path.exists(p):
        print("nothing to replay in", path)
        return 2
    plain = common.build_tree("plain")
    work = os.path.join(common.scratch(), "c10r")
    os.makedirs(work, exist_ok=True)
    src = os.path.join(work, "program.nano")
    with open(src, "w") as f:
        f.write(open(p).read())
    r = _observe((plain.root, plain.exe("nano_vm"), plain.exe("nano_virt"), src, work, 10))
    if r["emit"][0] != 0 or "file" not in r:
        print("program no longer compiles:", r["emit"][2][-500:].decode(errors="replace"))
        return 2
    norm = three_ways(r)
    print(describe(norm))
    sig = disagreement(norm)
    if sig:
        print("VIOLATION property=C10 replay=%s  # %s" % (path, sig))
        return 1
    print("C10 replay: the three ways agree")
    return 0


def probe_info(probe, files):
    """file -> dict of table sizes read back from the emitted module"""
    info = {}
    for i in range(0, len(files), 200):
        rc, out, err = common.run([probe, "info"] + files[i:i + 200], timeout=1800)
        if rc != 0:
            raise common.HarnessError("probe info failed rc=%s %s" % (rc, err[-500:]))
        for l in out.decode(errors="replace").splitlines():
            if l.startswith("INFO "):
                parts = l.split()
                info[parts[1]] = dict(x.split("=") for x in parts[2:])
    return info


def calibrate(plain, probe, work, gen, what):
    """c0, a, b with  size(k, j) = c0 + a*k + b*j  for the generator, measured on the tree under test"""
    pts = [(0, 0), (1, 0), (0, 1), (5, 3)]
    files = []
    for k, j in pts:
        src = os.path.join(work, "cal_%d_%d.nano" % (k, j))
        with open(src, "w") as f:
            f.write(gen(k, j))
        nvm = src[:-5] + ".nvm"
        rc, _o, e = common.run([plain.exe("nano_virt"), src, "--emit-nvm", "-o", nvm], timeout=120, cwd=plain.root)
        if rc != 0:
            raise common.HarnessError("calibration program does not compile: %s" % e[-400:])
        files.append(nvm)
    inf = probe_info(probe, files)
    v = [int(inf[f][what]) for f in files]
    c0, a, b = v[0], v[1] - v[0], v[2] - v[0]
    if a <= 0 or b < 0 or v[3] != c0 + 5 * a + 3 * b:
        raise common.HarnessError("size calibration is not linear: %s" % v)
    return c0, a, b


def solve(target, c0, a, b):
    """(k, j) with c0 + a*k + b*j == target and the smallest j, or None"""
    r = target - c0
    if r < 0:
        return None
    if b == 0:
        return (r // a, 0) if r % a == 0 else None
    for j in range(0, a + 1):
        if r - b * j >= 0 and (r - b * j) % a == 0:
            return ((r - b * j) // a, j)
    return None


def size_programs(tier, plain, probe, work):
    """list of (family, name, text, meta); meta carries the intended table size"""
    cal = os.path.join(work, "cal")
    os.makedirs(cal, exist_ok=True)
    progs = []
    # function table
    for shape in FN_SHAPES:
        for n in (1, 2, 3, 31, 32, 33, 255, 256, 257, 510, 511, 512, 513):
            t = gen_functions(n, shape)
            if t:
                progs.append(("fn", "fn_%s_%d" % (shape, n), t, {"dim": "functions", "user_functions": n}))
    # beyond the 512 top-level definitions the compiler accepts: nested functions are table entries too
    for total in pow2_around(9, 12 if tier == "quick" else 15):      # 65537 entries: the parser gives up on the source
        if total > 512:
            for shape in ("plain", "glob"):
                progs.append(("fn", "fn_nested_%s_%d" % (shape, total), gen_nested(total, shape), {"dim": "functions", "target": total}))
    # pooled strings: names and literals share the pool
    c0, a, _b = calibrate(plain, probe, cal, lambda k, j: gen_strings(k + 4 + j), "strings")
    if a != 1:
        raise common.HarnessError("one literal does not add one pooled string (%d)" % a)
    c0 -= 4
    for t in pow2_around(2, 13 if tier == "quick" else 16):
        if t - c0 >= 1:
            progs.append(("str", "str_%d" % t, gen_strings(t - c0), {"dim": "strings", "target": t}))
    # one long literal
    for L in [0, 1, 255, 256, 257, 65535, 65536, 65537] + ([1 << 20, (1 << 20) + 1] if tier != "quick" else []):
        progs.append(("len", "len_%d" % L, gen_longstring(L), {"dim": "maxstr", "target": L} if L > 8 else {"dim": "maxstr"}))   # "__init__" is longer
    # code bytes
    targets = pow2_around(15, 17) + (pow2_around(20, 20) if tier != "quick" else [])
    for shape, what in (("bigmain", "code"), ("split", "entry_off"), ("loop", "code")):
        c0, a, b = calibrate(plain, probe, cal, lambda k, j, s=shape: gen_code(s, k, j), what)
        for t in targets:
            kj = solve(t, c0, a, b)
            if kj is None:      # not reachable exactly with this tree's statement sizes: the nearest from below
                kj = ((t - c0) // a, 0)
            progs.append(("code", "code_%s_%d" % (shape, t), gen_code(shape, kj[0], kj[1]), {"dim": what, "target": t}))
    # imports
    for n in (1, 2, 31, 32, 33, 255, 256, 257, 300):
        for pos in ("first", "last"):
            progs.append(("imp", "imp_%d_%s" % (n, pos), gen_imports(n, pos),
                          {"dim": "imports", "target": n} if n <= 256 else {"dim": "imports", "declared": n}))    # the compiler keeps 256 externs
    return progs


def do_sizes(rep, tier, plain, iprobe, work):
    # ---------------- (c2) generated size-boundary programs through the real compiler
    sp = size_programs(tier, plain, iprobe, work)
    size_results = []
    for fam in ("fn", "str", "len", "code", "imp"):
        part = [(n, t, m) for f, n, t, m in sp if f == fam]
        # the 65535..65537-string programs take ~10 s per step on an idle machine
        size_results += run_generated(rep, plain, work, "size-" + fam, part, tmul=(10 if tier != "quick" else 2))
    ok = [r for r in size_results if not r.get("refused")]
    inf = probe_info(iprobe, [r["nvm"] for r in ok])
    achieved = {"functions": set(), "strings": set(), "maxstr": set(), "code": set(), "entry_off": set(), "imports": set()}
    missed = []
    for r in ok:
        i = inf.get(r["nvm"])
        if not i or i.get("load") != "ok":
            continue        # a module its own loader refuses: already a three-way disagreement above
        for k in achieved:
            achieved[k].add(int(i[k]))
        m = r["meta"]
        if "target" in m and int(i[m["dim"]]) != m["target"]:
            missed.append((r["name"], m["dim"], m["target"], int(i[m["dim"]])))
        r["info"] = i
    for k, vs in achieved.items():
        rep.coverage["compiler_built_%s_sizes" % k] = ",".join(str(x) for x in sorted(vs)[-40:])
    rep.coverage["size_programs"] = len(sp)
    rep.coverage["size_programs_accepted"] = len(ok)
    rep.coverage["size_targets_missed"] = len(missed)
    rep.coverage["size_targets_missed_list"] = "; ".join("%s: %s=%d wanted %d" % (n, d, got, t) for n, d, t, got in missed[:12])
    # vacuity: the boundaries this family exists for were really reached on this tree
    need = {"functions": (1, 2, 256, 257, 512, 513), "strings": (256, 257, 4096, 4097), "maxstr": (255, 256, 65535, 65536),
            "imports": (1, 32, 33, 256)}
    if tier != "quick":
        need["strings"] += (65535, 65536, 65537)
    for k, vals in need.items():
        lack = [v for v in vals if v not in achieved[k]]
        if lack and not rep.violations:
            raise common.HarnessError("size family did not reach %s = %s (reached %s)" % (k, lack, sorted(achieved[k])[-12:]))
    if not rep.violations:
        if not any(v >= 65536 for v in achieved["code"]) or not any(v >= 65536 for v in achieved["entry_off"]):
            raise common.HarnessError("no generated module has code / an entry offset beyond 64 KiB")
        if len(missed) > len(sp) // 4:
            raise common.HarnessError("size calibration missed %d targets, e.g. %s" % (len(missed), missed[:3]))
        if len(set((r["norm"]["--run"][0], r["norm"]["--run"][1]) for r in ok)) < len(ok) // 3:
            raise common.HarnessError("size family: outcomes are nearly all identical")
    for r in ok[:200:25]:
        rep.sample({"size_program": r["name"], "tables": {k: r["info"][k] for k in ("strings", "functions", "code", "imports", "maxstr")} if "info" in r else None,
                    "exit": r["norm"]["--run"][0]}, cap=16)

    return [r["nvm"] for r in ok], len(ok)


def do_traps(rep, tier, plain, work):
    # ---------------- (d) runtime errors: exit status, output and stderr class three ways
    kinds, wheres, stacks, outs = trap_alphabet(tier)
    tp = []
    skipped = 0
    for k in kinds:
        for w in wheres:
            for s in stacks:
                for o in outs:
                    t = gen_trap(k, w, s, o)
                    if t is None:
                        skipped += 1
                        continue
                    tp.append(("trap_%s_%s_%s_%s" % (k, w, s, o), t, {"kind": k, "where": w, "stack": s, "out": o}))
    trap_results = run_generated(rep, plain, work, "trap", tp, tmul=2)
    tok = [r for r in trap_results if not r.get("refused")]
    rep.coverage["trap_programs"] = len(tp)
    rep.coverage["trap_programs_accepted"] = len(tok)
    rep.coverage["trap_combinations_without_expression_form"] = skipped
    failing = [r for r in tok if r["norm"]["--run"][2][0] == "runtime error"]
    rep.coverage["trap_programs_ending_in_runtime_error"] = len(failing)
    msgs = {}
    for r in failing:
        msgs.setdefault(r["norm"]["--run"][2][1], 0)
        msgs[r["norm"]["--run"][2][1]] += 1
    rep.coverage["trap_distinct_vm_messages"] = len(msgs)
    expect = len(kinds) * len(wheres) * len(stacks) * len(outs) - skipped
    if len(tp) != expect or len(tp) < (400 if tier == "quick" else 1500):
        raise common.HarnessError("trap family smaller than expected: %d" % len(tp))
    if not rep.violations:
        if len(tok) < len(tp):
            bad = [r for r in trap_results if r.get("refused")][0]
            raise common.HarnessError("generated trap program refused by the front end: %s: %s" % (bad["name"], bad["emit"][2][-400:]))
        nctl = len([1 for r in tok if r["meta"]["kind"] == "control"])
        if len(failing) != len(tok) - nctl:
            odd = [r["name"] for r in tok if (r["meta"]["kind"] == "control") == (r["norm"]["--run"][2][0] == "runtime error")][:5]
            raise common.HarnessError("trap family: %d of %d non-control programs end in a runtime error (e.g. %s)" % (len(failing), len(tok) - nctl, odd))
        if len(msgs) < 5:
            raise common.HarnessError("trap family: only %d distinct VM messages: %s" % (len(msgs), sorted(msgs)))
        if len(set((r["norm"]["--run"][0], r["norm"]["--run"][1]) for r in tok)) < 20:
            raise common.HarnessError("trap family: outcomes are nearly all identical")
    for r in tok[:len(tok):max(1, len(tok) // 6)]:
        rep.sample({"trap_program": r["name"], "exit": r["norm"]["--run"][0], "stderr_class": "/".join(r["norm"]["--run"][2]),
                    "stdout_bytes": len(r["norm"]["--run"][1])}, cap=8)

    return len(tok), (kinds, wheres, stacks, outs)


def run(tier):
    bg = {}
    try:
        return _run(tier, bg)
    finally:
        for pr, _fo, _fe in bg.values():     # background probes still running after an early exit
            if pr.poll() is None:
                try:
                    os.killpg(pr.pid, 9)
                except ProcessLookupError:
                    pass
                pr.wait()


def _run(tier, bg):
    rep = common.Report("C10", tier)
    tree = common.build_tree("asan")
    plain = common.build_tree("plain")      # wrapper binaries are built by the plain toolchain, as a user would
    probe = tree.build_probe(os.path.join(common.VERIF, "vf/probes/nvm_probe.c"), "nvm_probe")
    sprobe = tree.build_probe(os.path.join(common.VERIF, "vf/probes/c10_probe.c"), "c10_probe")
    # the same probe without the sanitizer: only reads table sizes back from files (can be 65537 strings)
    iprobe = plain.build_probe(os.path.join(common.VERIF, "vf/probes/c10_probe.c"), "c10_probe")
    work = os.path.join(common.scratch(), "c10")
    os.makedirs(work, exist_ok=True)

    # ---------------- (b) structural product and (c1) API-built size boundaries: two single-threaded probe runs,
    # started now and collected after the process pool below has done the compiler-side families
    # (no threads: the process pool forks, and a fork while another thread holds a lock hangs the child)
    import subprocess
    for key, cmd in (("c10b", [probe, "c10b"]), ("sizes", [sprobe, "sizes", tier])):
        fo = open(os.path.join(work, key + ".stdout"), "wb")
        fe = open(os.path.join(work, key + ".stderr"), "wb")
        bg[key] = (subprocess.Popen(cmd, stdin=subprocess.DEVNULL, stdout=fo, stderr=fe, env=common.env(), start_new_session=True), fo, fe)

    def collect(key, timeout):
        pr, fo, fe = bg[key]
        try:
            rc = pr.wait(timeout=timeout)
        except subprocess.TimeoutExpired:
            try:
                os.killpg(pr.pid, 9)
            except ProcessLookupError:
                pass
            pr.wait()
            raise common.HarnessError("background probe %s did not finish" % key)
        fo.close()
        fe.close()
        return rc, open(fo.name, "rb").read(), open(fe.name, "rb").read()

    # ---------------- (d) and (c2): generated programs first (the general enumerations; skipped, with
    # exhaustive=false, only when the time budget - counted from here, after the builds - is already spent)
    rep.set_deadline((time.time() - rep.t0) + (150 if tier == "quick" else 1600))
    nvms = []
    n_size = n_trap = 0
    alphabet = trap_alphabet(tier)
    if not rep.out_of_time():
        n_trap, alphabet = do_traps(rep, tier, plain, work)
    if not rep.out_of_time():
        more, n_size = do_sizes(rep, tier, plain, iprobe, work)
        nvms += more
    kinds, wheres, stacks, outs = alphabet

    # ---------------- (a) compiler-produced modules
    srcs = corpus.hand_programs() + sorted(glob.glob(os.path.join(common.VERIF, "vf/corpus_vm/*.nano")))
    srcs.append(gen_many(os.path.join(work, "g_many.nano")))
    # batches of enumerated programs (every layer of the shared enumerator) as further compiler-produced modules
    from .. import langrun
    from . import langcommon
    for layer in ("layer_S", "layer_F", "layer_D", "layer_A", "layer_E", "op_matrix", "effect_order"):
        cases = langcommon.all_cases("quick", [layer])
        nb = 2 if tier == "quick" else 12
        for k in range(nb):
            part = cases[k * 40:(k + 1) * 40] if layer == "layer_A" else cases[k * 100:(k + 1) * 100]
            if not part:
                break
            pth = os.path.join(work, "e_%s_%d.nano" % (layer, k))
            with open(pth, "w") as f:
                f.write(langrun.source_of(part))
            srcs.append(pth)
    jobs = [(plain.root, plain.exe("nano_vm"), plain.exe("nano_virt"), s, work) for s in srcs]
    results = common.pmap(_observe, jobs)
    for r in results:
        name = os.path.basename(r["src"])
        if r["emit"][0] != 0 or "file" not in r:
            if name.startswith("e_layer") or name.startswith("e_op") or name.startswith("e_eff"):
                rep.count("enumerator_batches_refused_by_front_end")     # a batch holding a case of C02's known finding
                continue
            raise common.HarnessError("corpus program %s does not compile: %s" % (name, r["emit"][2][-500:]))
        # exit statuses are compared modulo 256 (what a process can report)
        norm = three_ways(r)
        rep.count("traces_validated_against_impl", len(norm))
        rep.count("transitions", len(norm))
        sig = disagreement(norm)
        if sig:
            rep.violation("c10a:" + name, {"program.nano": open(r["src"]).read(), "observations.txt": describe(norm)},
                          "%s: run / file / wrapper disagree: %s (%s)" % (name, {k: v[0] for k, v in norm.items()}, sig), REPLAY_SH)
        nvms.append(r["nvm"])
        rep.sample({"program": name, "exit": norm["--run"][0], "stdout_bytes": len(norm["--run"][1])}, cap=22)

    # ---------------- file round trip of every compiler-produced module
    rmods, _sk = corpus.repo_modules(tree, os.path.join(work, "rmods"))
    allm = nvms + [m for _s, m in rmods]
    for i in range(0, len(allm), 300):
        chunk = allm[i:i + 300]
        rc, out, err = common.run([sprobe, "rt"] + chunk, timeout=1800)
        out = out.decode(errors="replace")
        if rc != 0:
            rep.violation("rt-crash", {"stdout.txt": out[-20000:], "stderr.txt": err.decode(errors="replace")[-20000:]}, "file round trip aborted rc=%s" % rc)
        fails = {}
        for l in out.splitlines():
            if l.startswith("FAIL"):
                fails.setdefault(l.split()[1], []).append(l)
        for cls, ls in fails.items():
            f = ls[0].split()[2]
            files = {"fails.txt": "\n".join(ls) + "\n"}
            if os.path.exists(f) and os.path.getsize(f) < 4000000:
                files["module.nvm"] = open(f, "rb").read()
            rep.violation("rt:" + cls + ":" + os.path.basename(f), files, "%s (%d module(s))" % (ls[0], len(ls)))
    rep.count("states", len(allm))
    rep.count("transitions", len(allm) * 3)
    rep.coverage["compiler_modules_roundtripped"] = len(allm)
    rep.coverage["programs_run_three_ways"] = len(srcs) + n_size + n_trap

    # ---------------- collect (b) and (c1)
    rc, out, err = collect("c10b", 1800)
    out = out.decode(errors="replace")
    stat = [l for l in out.splitlines() if l.startswith("STAT")]
    if rc != 0 or not stat:
        rep.violation("c10b-crash", {"stdout.txt": out[-20000:], "stderr.txt": err.decode(errors="replace")[-20000:]},
                      "structural round-trip product aborted rc=%s (sanitizer report in nvm_serialize/nvm_deserialize)" % rc)
        nmods = 0
    else:
        kv = dict(x.split("=") for x in stat[0].split()[1:])
        nmods = int(kv["modules"])
    fl = [l for l in out.splitlines() if l.startswith("FAIL")]
    groups = {}
    for l in fl:
        groups.setdefault(l.split(" : ")[-1].split("(")[0][:40], []).append(l)
    for k, ls in groups.items():
        rep.violation("c10b:" + k, {"fails.txt": "\n".join(ls) + "\n"}, "structural round trip: %s e.g. %s" % (k, ls[0]))
    rep.count("states", nmods)
    rep.count("transitions", nmods * 3)
    rep.coverage["api_built_modules"] = nmods
    rep.sample({"api_module": "strings=['a',''] functions=[profile 2 (arity 0x1234, offset 0x12345678, ...)] imports=[3 params] debug=2 code=4097 flags=5 entry=0xFFFFFFFF"}, cap=26)

    rc, out, err = collect("sizes", 3000)
    out = out.decode(errors="replace")
    stat = [l for l in out.splitlines() if l.startswith("STAT")]
    nsz = 0
    if rc != 0 or not stat:
        rep.violation("c10size-crash", {"stdout.txt": out[-20000:], "stderr.txt": err.decode(errors="replace")[-20000:]},
                      "size-boundary modules built through the API: probe aborted rc=%s (sanitizer report / crash in the nvm_* builder, writer or reader)" % rc)
    else:
        kv = dict(x.split("=") for x in stat[0].split()[1:])
        nsz = int(kv["modules"])
        for k in sorted(kv):
            if k.startswith("sweep_") or k in ("product", "beyond_capacity_constants"):
                rep.coverage["api_size_" + k] = int(kv[k])
        if nsz < (1500 if tier == "quick" else 9000) or int(kv["beyond_capacity_constants"]) < nsz // 3:
            raise common.HarnessError("vacuous size-boundary enumeration: %s" % stat[0])
    groups = {}
    for l in out.splitlines():
        if l.startswith("FAIL"):
            groups.setdefault(l.split(" : ")[-1].split("(")[0][:40], []).append(l)
    for k, ls in groups.items():
        rep.violation("c10size:" + k, {"fails.txt": "\n".join(ls) + "\n"},
                      "size-boundary module built through the API: %s (%d shown) e.g. %s" % (k, len(ls), ls[0]))
    rep.count("states", nsz)
    rep.count("transitions", nsz * 3)
    rep.coverage["api_size_boundary_modules"] = nsz
    rep.sample({"api_size_module": "sweep strings=4097 (others: 3 strings / 2 functions / 5 code bytes / 1 import / 1 debug entry)"}, cap=26)
    rep.sample({"api_size_module": "product strings=4097 longstr=65536 fns=513 code=65537 imps=4097 lastparams=257 dbg=513"}, cap=26)

    rep.assumptions += [
        "exit statuses compared modulo 256",
        "observations are stdout bytes, exit status (the property's 'output' and 'exit status') and the stderr CLASS: no runtime error / runtime error + the VM's message / module refused; other stderr text (compiler warnings of --run, the differing 'Runtime error: <kind>' banner of nano_vm) is not compared",
        "structural alphabet: 6 string sets x function lists (<=3 of 4 profiles) x import lists (<=2 of 3 profiles) x 0-2 debug entries x 4 code lengths x 8 flag values x 3 entry points",
        "size boundaries through the API: every table over {0} u {2^k-1,2^k,2^k+1} (bounds per tier in the docstring) at two base settings of the others + full product of a reduced list; function/import/debug records carry index-dependent field values",
        "size boundaries through the compiler: it accepts at most 512 top-level functions (larger function tables come from nested functions, up to 4097 entries quick / 32769 thorough; 65537 is beyond the parser), keeps 256 externs and emits no debug entries - larger import / debug tables exist only in the API-built part; code sizes are hit exactly by calibrating two statement sizes on the tree under test",
        "runtime errors: product %d kinds x %d places x %d frame states x %d output prefixes (combinations of a pending operand with a statement-only error form do not exist); errors reachable from source programs only (no hostile modules: C13)" % (len(kinds), len(wheres), len(stacks), len(outs)),
        "a disagreement among generated programs is reported only after a program of its signature group, re-run alone twice (10x time limits after a timeout), shows the same disagreement both times",
    ]
    if nmods and nmods < 1000:
        raise common.HarnessError("vacuous structural product")
    return rep.finish()
