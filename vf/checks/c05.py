"""C05  Ill-formed programs are never turned into a runnable artifact.

Seeds are well-typed programs held as ASTs; a catalogue of rule-violating mutation operators
(one per static rule of the statement) is applied at EVERY applicable position of every seed
(1 deviation; thorough: all pairs inside one function).  Each operator is type-directed (a
small static type inference over the seed AST) so every mutant violates its rule by
construction.  Every mutant goes through the real type checker (fe_probe verdict); every
mutant the checker ACCEPTS, and a stride of the rejected ones, is pushed through the three
real tools (nanoc -o, nano_virt --run, nano_virt --emit-nvm -o): exit != 0, a diagnostic, no
file at -o, and the sentinel the program would print is absent.
"""
import copy
import os
import re
import struct

from .. import common, nanoref as nr, langrun

I, B, S, F = "int", "bool", "string", "float"


def V(n): return ("var", n)
def N(v): return ("int", v)
def BIN(op, a, b): return ("bin", op, a, b)
def CALL(f, *a): return ("call", f, list(a))


# --------------------------------------------------------------------------- seeds
def seeds():
    out = []
    p = nr.Program()
    p.add_struct("Pt", [("x", I), ("y", I), ("tag", S)])
    p.add_enum("Col", [("Red", 0), ("Green", 1)])
    p.add_union("Sh", [("Ci", [("r", I)]), ("Sq", [("w", I), ("h", I)])])
    p.add_global("LIMIT", I, N(10))
    p.add_fn("add", [("a", I), ("b", I)], I, [("return", BIN("+", V("a"), V("b")))])
    p.add_fn("isbig", [("a", I)], B, [("return", BIN(">", V("a"), V("LIMIT")))])
    p.add_fn("greet", [("s", S), ("n", I)], S, [("let", "t", S, BIN("+", V("s"), CALL("int_to_string", V("n"))), False), ("return", V("t"))])
    p.add_fn("area", [("s", "Sh")], I, [("match", V("s"), [("Ci", "c", [("return", BIN("*", ("field", V("c"), "r"), ("field", V("c"), "r")))]),
                                                                ("Sq", "q", [("return", BIN("*", ("field", V("q"), "w"), ("field", V("q"), "h")))])]), ("return", N(0))])
    p.add_fn("norm", [("p", "Pt")], I, [("let", "d", I, BIN("-", ("field", V("p"), "x"), ("field", V("p"), "y")), False),
                                            ("if", BIN("<", V("d"), N(0)), [("return", ("un", "-", V("d")))], [("return", V("d"))])])
    p.add_fn("loop", [("n", I)], I, [("let", "acc", I, N(0), True), ("let", "i", I, N(0), True),
                                         ("while", BIN("<", V("i"), V("n")), [("if", ("bin", "and", CALL("isbig", V("i")), ("un", "not", BIN("==", V("i"), N(12)))), [("set", "acc", CALL("add", V("acc"), V("i")))], [("set", "acc", BIN("+", V("acc"), N(1)))]),
                                                                              ("set", "i", BIN("+", V("i"), N(1)))]),
                                         ("for", "k", N(0), N(3), [("set", "acc", BIN("+", V("acc"), V("k")))]),
                                         ("return", V("acc"))])
    p.add_fn("arr", [("n", I)], I, [("let", "xs", "array<int>", ("arrlit", I, [N(1), N(2), V("n")]), True), ("set", "xs", CALL("array_push", V("xs"), N(4))),
                                        ("let", "c", "Col", ("enumval", "Col", "Green"), False),
                                        ("if", BIN("==", V("c"), ("enumval", "Col", "Red")), [("return", N(0))], [("return", BIN("+", CALL("at", V("xs"), N(0)), CALL("array_length", V("xs"))))])])
    p.add_fn("grade", [("n", I)], I, [("if", BIN(">", V("n"), N(10)), [("return", N(3))],
                                          [("if", BIN(">", V("n"), N(5)), [("return", N(2))], [("if", BIN("==", V("n"), N(0)), [("return", N(0))], [("return", N(1))], "elif")], "elif")])])
    p.add_fn("scale", [("a", F), ("b", F)], F, [("let", "c", F, BIN("*", V("a"), V("b")), False), ("return", BIN("+", BIN("/", V("c"), ("float", 2.0)), BIN("-", V("a"), ("float", 0.5))))])
    p.add_fn("fcmp", [("a", F)], B, [("return", ("bin", "or", BIN("<", V("a"), ("float", 1.5)), BIN(">=", V("a"), ("float", 9.0))))])
    p.add_fn("main", [], I, [("println", ("str", "SENTINEL")), ("println", CALL("grade", N(7))), ("println", CALL("fcmp", CALL("scale", ("float", 2.0), ("float", 3.0)))),
                             ("let", "p", "Pt", ("structlit", "Pt", [("x", N(3)), ("y", N(9)), ("tag", ("str", "a"))]), False),
                             ("println", CALL("norm", V("p"))), ("println", CALL("greet", ("field", V("p"), "tag"), CALL("add", N(1), N(2)))),
                             ("println", CALL("area", ("unionlit", "Sh", "Sq", [("w", N(2)), ("h", N(5))]))),
                             ("println", CALL("loop", N(14))), ("println", CALL("arr", N(7))),
                             ("let", "t", "(int, bool)", ("tuplelit", [N(5), ("bool", True)]), False),
                             ("if", ("tupidx", V("t"), 1), [("println", ("tupidx", V("t"), 0))], [("println", N(0))]),
                             ("return", N(0))])
    out.append(("s_core", p))
    q = nr.Program()
    q.add_fn("fib", [("n", I)], I, [("if", BIN("<", V("n"), N(2)), [("return", V("n"))], [("return", BIN("+", CALL("fib", BIN("-", V("n"), N(1))), CALL("fib", BIN("-", V("n"), N(2)))))])])
    q.add_fn("twice", [("g", "fn(int) -> int"), ("v", I)], I, [("return", CALL("g", CALL("g", V("v"))))])
    q.add_fn("cat", [("a", S), ("b", S)], S, [("return", BIN("+", V("a"), V("b")))])
    q.add_fn("cmp", [("a", S), ("b", S)], B, [("return", ("bin", "or", BIN("==", V("a"), V("b")), BIN("!=", CALL("str_length", V("a")), N(0))))])
    q.add_fn("main", [], I, [("println", ("str", "SENTINEL")), ("println", CALL("twice", V("fib"), N(3))), ("println", CALL("cat", ("str", "x"), ("str", "y"))),
                             ("println", CALL("cmp", ("str", "x"), ("str", ""))), ("println", BIN("%", CALL("fib", N(10)), N(7))), ("return", N(0))])
    out.append(("s_fn", q))
    # seeds drawn from the program enumerator (statement, expression, data and function layers)
    from .. import enumer
    picks = {"layer_S": [0, 60, 146, 300, 404, 520, 700, 850], "layer_E": [10, 200, 1500, 3000, 4100], "layer_D": [0, 100, 400, 536], "layer_F": [12, 30, 55, 70]}
    for layer, idxs in picks.items():
        cs = list(getattr(enumer, layer)("quick"))
        for i in idxs:
            if i < len(cs):
                c = cs[i]
                prog = langrun.make_program([c])
                params, ret, body = prog.funcs["main"]
                prog.funcs["main"] = (params, ret, [("println", ("str", "SENTINEL"))] + list(body))
                out.append(("e_" + c["id"], prog))
    return out


# --------------------------------------------------------------------------- static types of the seed language
class Ty:
    def __init__(self, prog):
        self.p = prog

    def of(self, e, env):
        t = e[0]
        if t == "int": return I
        if t == "bool": return B
        if t == "str": return S
        if t == "float": return F
        if t == "var":
            if e[1] in env: return env[e[1]]
            for n, ty, _e, _m in self.p.globals:
                if n == e[1]: return ty
            if e[1] in self.p.funcs: return "fn"
            return None
        if t == "bin":
            if e[1] in nr.ARITH:
                return self.of(e[2], env)
            return B
        if t == "un":
            return I if e[1] == "-" else B
        if t == "call":
            if e[1] in self.p.funcs: return self.p.funcs[e[1]][1]
            return {"int_to_string": S, "str_length": I, "at": I, "array_length": I, "array_push": "array<int>"}.get(e[1])
        if t == "field":
            st = self.of(e[1], env)
            for f, ft in self.p.structs.get(st, []):
                if f == e[2]: return ft
            if st and st.startswith("variant:"):
                un, vn = st.split(":")[1:]
                for f, ft in dict(self.p.unions[un])[vn]:
                    if f == e[2]: return ft
            return None
        if t == "tupidx": return None
        if t == "structlit": return e[1]
        if t == "enumval": return e[1]
        if t == "unionlit": return e[1]
        if t == "arrlit": return "array<%s>" % e[1]
        if t == "tuplelit": return "tuple"
        return None


WRONG = {I: ("str", "zz"), B: ("int", 1), S: ("int", 5), F: ("str", "zz")}


def mutants(name, prog):
    """yield (rule, description, mutated program)"""
    ty = Ty(prog)

    def with_fn(fname, body):
        p2 = copy.deepcopy(prog)
        params, ret, _b = p2.funcs[fname]
        p2.funcs[fname] = (params, ret, body)
        return p2

    def subst(obj, path, new):
        """functional replace of obj at path (list of indexes)"""
        if not path:
            return new
        i = path[0]
        if isinstance(obj, tuple):
            return obj[:i] + (subst(obj[i], path[1:], new),) + obj[i + 1:]
        l = list(obj)
        l[i] = subst(obj[i], path[1:], new)
        return l

    for fname, (params, ret, body) in prog.funcs.items():
        env0 = dict(params)

        # walk statements with scoping to collect (path, kind, node, env)
        sites = []

        def walk_expr(e, path, env):
            sites.append((list(path), "expr", e, dict(env)))
            if e[0] == "bin":
                walk_expr(e[2], path + [2], env); walk_expr(e[3], path + [3], env)
            elif e[0] == "un":
                walk_expr(e[2], path + [2], env)
            elif e[0] == "call":
                for i, a in enumerate(e[2]):
                    walk_expr(a, path + [2, i], env)
            elif e[0] in ("field", "tupidx"):
                walk_expr(e[1], path + [1], env)
            elif e[0] in ("structlit",):
                for i, (f, x) in enumerate(e[2]):
                    walk_expr(x, path + [2, i, 1], env)
            elif e[0] == "unionlit":
                for i, (f, x) in enumerate(e[3]):
                    walk_expr(x, path + [3, i, 1], env)
            elif e[0] == "arrlit":
                for i, x in enumerate(e[2]):
                    walk_expr(x, path + [2, i], env)
            elif e[0] == "tuplelit":
                for i, x in enumerate(e[1]):
                    walk_expr(x, path + [1, i], env)

        def walk_stmts(stmts, path, env):
            env = dict(env)
            for i, s in enumerate(stmts):
                sp = path + [i]
                sites.append((list(sp), "stmt", s, dict(env)))
                k = s[0]
                if k == "let":
                    walk_expr(s[3], sp + [3], env)
                    env[s[1]] = s[2]
                    env["#mut:" + s[1]] = s[4]
                elif k in ("set",):
                    walk_expr(s[2], sp + [2], env)
                elif k in ("return", "println", "print", "expr", "assert"):
                    walk_expr(s[1], sp + [1], env)
                elif k == "if":
                    walk_expr(s[1], sp + [1], env)
                    walk_stmts(s[2], sp + [2], env)
                    if s[3] is not None:
                        walk_stmts(s[3], sp + [3], env)
                elif k == "while":
                    walk_expr(s[1], sp + [1], env)
                    walk_stmts(s[2], sp + [2], env)
                elif k == "for":
                    e2 = dict(env); e2[s[1]] = I
                    walk_stmts(s[4], sp + [4], e2)
                elif k == "match":
                    walk_expr(s[1], sp + [1], env)
                    un = ty.of(s[1], env)
                    for j, (vn, bind, b2) in enumerate(s[2]):
                        e2 = dict(env); e2[bind] = "variant:%s:%s" % (un, vn)
                        walk_stmts(b2, sp + [2, j, 2], e2)
        walk_stmts(body, [], env0)

        for path, kind, node, env in sites:
            where = "%s.%s@%s" % (name, fname, "/".join(map(str, path)))
            if kind == "expr":
                e = node
                if e[0] == "bin":
                    lt, rt = ty.of(e[2], env), ty.of(e[3], env)
                    if e[1] in nr.ARITH or e[1] in ("<", "<=", ">", ">="):
                        if lt == F and rt == F:
                            # no implicit conversions (spec 8.4): float op int is ill-typed
                            yield "operand-type", "%s: left operand of float %s := int" % (where, e[1]), with_fn(fname, subst(body, path + [2], N(2)))
                            yield "operand-type", "%s: right operand of float %s := int" % (where, e[1]), with_fn(fname, subst(body, path + [3], N(2)))
                        if lt == I and rt == I:
                            yield "operand-type", "%s: right operand of int %s := float" % (where, e[1]), with_fn(fname, subst(body, path + [3], ("float", 2.5)))
                        if lt == I:
                            yield "operand-type", "%s: left operand of %s := string" % (where, e[1]), with_fn(fname, subst(body, path + [2], ("str", "zz")))
                        if rt == I:
                            yield "operand-type", "%s: right operand of %s := bool" % (where, e[1]), with_fn(fname, subst(body, path + [3], ("bool", True)))
                    elif e[1] in ("and", "or"):
                        yield "operand-type", "%s: left operand of %s := int" % (where, e[1]), with_fn(fname, subst(body, path + [2], N(1)))
                        yield "operand-type", "%s: right operand of %s := string" % (where, e[1]), with_fn(fname, subst(body, path + [3], ("str", "zz")))
                    elif e[1] in ("==", "!=") and lt in WRONG:
                        yield "operand-type", "%s: right operand of %s := other type" % (where, e[1]), with_fn(fname, subst(body, path + [3], WRONG[lt]))
                elif e[0] == "un":
                    yield "operand-type", "%s: operand of unary %s := wrong type" % (where, e[1]), with_fn(fname, subst(body, path + [2], ("str", "zz") if e[1] == "-" else N(3)))
                elif e[0] == "call":
                    if e[1] in prog.funcs:
                        ps = prog.funcs[e[1]][0]
                        for i, (pn, pt) in enumerate(ps):
                            if pt in WRONG:
                                yield "argument-type", "%s: argument %d of %s := wrong type" % (where, i, e[1]), with_fn(fname, subst(body, path + [2, i], WRONG[pt]))
                        if ps:
                            yield "arity", "%s: call of %s with one argument fewer" % (where, e[1]), with_fn(fname, subst(body, path + [2], e[2][:-1]))
                        yield "arity", "%s: call of %s with one argument more" % (where, e[1]), with_fn(fname, subst(body, path + [2], e[2] + [N(0)]))
                        yield "unknown-name", "%s: call of undefined function" % where, with_fn(fname, subst(body, path + [1], "zz_nofn_9"))
                    elif e[1] in ("int_to_string", "str_length", "at", "array_length", "array_push"):
                        yield "arity", "%s: builtin %s with one argument more" % (where, e[1]), with_fn(fname, subst(body, path + [2], e[2] + [N(0)]))
                        yield "arity", "%s: builtin %s with one argument fewer" % (where, e[1]), with_fn(fname, subst(body, path + [2], e[2][:-1]))
                        if e[1] in ("str_length",):
                            yield "argument-type", "%s: builtin %s argument := int" % (where, e[1]), with_fn(fname, subst(body, path + [2, 0], N(3)))
                        if e[1] in ("int_to_string", "array_length"):
                            yield "argument-type", "%s: builtin %s argument := string" % (where, e[1]), with_fn(fname, subst(body, path + [2, 0], ("str", "zz")))
                elif e[0] == "var" and ty.of(e, env) != "fn":
                    yield "unknown-name", "%s: variable %s := undefined name" % (where, e[1]), with_fn(fname, subst(body, path, V("zz_undefined_9")))
                elif e[0] == "field":
                    yield "undefined-field", "%s: field .%s := .zz_nofield" % (where, e[2]), with_fn(fname, subst(body, path + [2], "zz_nofield"))
                elif e[0] == "enumval":
                    yield "undefined-variant", "%s: enum variant := Zznone" % where, with_fn(fname, subst(body, path + [2], "Zznone"))
                elif e[0] == "unionlit":
                    yield "undefined-variant", "%s: union variant := Zznone" % where, with_fn(fname, subst(body, path + [2], "Zznone"))
                elif e[0] == "structlit":
                    yield "undefined-field", "%s: struct literal with an undefined field" % where, with_fn(fname, subst(body, path + [2], e[2][:-1] + [("zz_nofield", e[2][-1][1])]))
            else:
                s = node
                if s[0] == "let" and not s[4] and s[2] in WRONG:
                    parent = path[:-1]
                    idx = path[-1]
                    def ins(obj, parent, idx, new):
                        if not parent:
                            return obj[:idx + 1] + [new] + obj[idx + 1:]
                        i = parent[0]
                        if isinstance(obj, tuple):
                            return obj[:i] + (ins(obj[i], parent[1:], idx, new),) + obj[i + 1:]
                        l = list(obj); l[i] = ins(obj[i], parent[1:], idx, new); return l
                    good = {I: N(1), B: ("bool", True), S: ("str", "v")}[s[2]] if s[2] in (I, B, S) else None
                    if good:
                        yield "immutable-set", "%s: set on immutable let %s" % (where, s[1]), with_fn(fname, ins(body, parent, idx, ("set", s[1], good)))
                    yield "let-type", "%s: let %s initialised with the wrong type" % (where, s[1]), with_fn(fname, subst(body, path + [3], WRONG[s[2]]))
                if s[0] == "set" and ty.of(V(s[1]), env) in WRONG:
                    yield "set-type", "%s: set %s to the wrong type" % (where, s[1]), with_fn(fname, subst(body, path + [2], WRONG[ty.of(V(s[1]), env)]))
                if s[0] in ("if", "while"):
                    yield "condition-type", "%s: %s condition := int" % (where, s[0]), with_fn(fname, subst(body, path + [1], BIN("+", N(1), N(2))))
                    yield "condition-type", "%s: %s condition := string" % (where, s[0]), with_fn(fname, subst(body, path + [1], ("str", "c")))
                if s[0] == "return" and ret in WRONG:
                    yield "return-type", "%s: return of the wrong type" % where, with_fn(fname, subst(body, path, ("return", WRONG[ret])))
                if s[0] == "match":
                    yield "undefined-variant", "%s: match arm names an undefined variant" % where, with_fn(fname, subst(body, path + [2, 0, 0], "Zznone"))
        # parameters are immutable
        for pn, pt in params:
            if pt in (I, B, S):
                good = {I: N(1), B: ("bool", True), S: ("str", "v")}[pt]
                yield "immutable-set", "%s.%s: set on parameter %s" % (name, fname, pn), with_fn(fname, [("set", pn, good)] + list(body))
        # missing return: drop the final return / one branch's return
        if ret != "void" and body and body[-1][0] == "return" and fname != "main":
            yield "missing-return", "%s.%s: final return removed" % (name, fname), with_fn(fname, list(body[:-1]) + [("println", N(1))])
        if body and body[-1][0] == "if" and body[-1][3] is not None and body[-1][2][-1][0] == "return":
            s = body[-1]
            yield "missing-return", "%s.%s: return removed from the then-branch" % (name, fname), with_fn(fname, list(body[:-1]) + [("if", s[1], list(s[2][:-1]) + [("println", N(1))], s[3])])
            yield "missing-return", "%s.%s: return removed from the else-branch" % (name, fname), with_fn(fname, list(body[:-1]) + [("if", s[1], s[2], list(s[3][:-1]) + [("println", N(1))])])


EXTRA_TEXT = [
    ("extern-outside-unsafe", "extern call statement outside unsafe",
     'extern fn srand(seed: int) -> void\nfn main() -> int {\n    (println "SENTINEL")\n    (srand 1)\n    return 0\n}\nshadow main { assert true }\n'),
    ("out-of-scope", "local of another function",
     'fn f() -> int {\n    let secret: int = 5\n    return secret\n}\nshadow f { assert true }\nfn main() -> int {\n    (println "SENTINEL")\n    (println secret)\n    return 0\n}\nshadow main { assert true }\n'),
    ("out-of-scope", "block-local used after its block",
     'fn main() -> int {\n    (println "SENTINEL")\n    if true {\n        let inner: int = 5\n        (println inner)\n    } else {\n        (println 0)\n    }\n    (println inner)\n    return 0\n}\nshadow main { assert true }\n'),
    ("out-of-scope", "loop variable used after the loop",
     'fn main() -> int {\n    (println "SENTINEL")\n    for i in (range 0 2) {\n        (println i)\n    }\n    (println i)\n    return 0\n}\nshadow main { assert true }\n'),
    ("arity", "println with two arguments", 'fn main() -> int {\n    (println "SENTINEL")\n    (println 1 2)\n    return 0\n}\nshadow main { assert true }\n'),
    ("unknown-name", "unknown builtin-looking function", 'fn main() -> int {\n    (println "SENTINEL")\n    (println (str_index_of "hello" "l"))\n    return 0\n}\nshadow main { assert true }\n'),
    ("argument-type", "call result passed where a function value is expected",
     'fn d(x: int) -> int {\n    return (* x 2)\n}\nshadow d { assert true }\nfn ap(g: fn(int) -> int, v: int) -> int {\n    return (g v)\n}\nshadow ap { assert true }\nfn main() -> int {\n    (println "SENTINEL")\n    (println (ap (d 1) 2))\n    return 0\n}\nshadow main { assert true }\n'),
    ("operand-type", "ordering comparison on strings", 'fn main() -> int {\n    (println "SENTINEL")\n    if (< "a" "b") { (println 1) } else { (println 2) }\n    return 0\n}\nshadow main { assert true }\n'),
]


# ill-formed statement x what precedes it: the checker keeps state across statements and functions (scopes that are
# never popped, the in-unsafe flag, the current function's return type, the loop depth); a construct that legitimately
# changes that state must not let a LATER ill-formed statement through
CTX_HEAD = ("extern fn srand(seed: int) -> void\nextern fn labs(x: int) -> int\n"
            "struct CP { x: int }\nunion CU { A { v: int }, B { s: string } }\n"
            "resource struct RH { fd: int }\n"
            "fn mkr(n: int) -> RH {\n    return RH { fd: n }\n}\nshadow mkr { assert true }\n"
            "fn closer(h: RH) -> int {\n    return h.fd\n}\nshadow closer { assert true }\n")
CONTEXTS = {
    "none": "",
    "unsafe-block": "    unsafe { (srand 2) }\n",
    "unsafe-with-return": "    if false {\n        unsafe {\n            (srand 3)\n            return 9\n        }\n    } else {}\n",
    "unsafe-nested-in-loop": "    for ui in (range 0 1) { unsafe { (srand ui) } }\n",
    "nested-fn-same-param": "    fn helper(total: int) -> int { return (+ total 1) }\n    (println (helper 1))\n",
    "nested-fn-other": "    fn helper2(q: int) -> int {\n        let mut total2: int = q\n        set total2 (+ total2 1)\n        return total2\n    }\n    (println (helper2 1))\n",
    "shadowing-block": "    if true {\n        let mut total: int = 0\n        set total 5\n        (println total)\n    } else {}\n",
    "loop-with-break": "    let mut li: int = 0\n    while (< li 3) { set li (+ li 1)  if (== li 2) { break } else {} }\n",
    "match": "    let cu: CU = CU.A { v: 1 }\n    match cu {\n        A(m) => { (println m.v) }\n        B(m) => { (println m.s) }\n    }\n",
    "void-call": "    (noop)\n",
}
ILL = {
    "extern-outside-unsafe": ("extern call statement outside unsafe", "    (srand 1)\n"),
    "immutable-set": ("set on an immutable let", "    set total 7\n"),
    "unknown-name": ("use of an undefined variable", "    (println nowhere)\n"),
    "let-type": ("let with a value of another type", "    let wrong: int = \"s\"\n    (println wrong)\n"),
    "break-outside-loop": ("break outside a loop", "    break\n"),
    "return-type": ("return of another type", "    if false { return \"s\" } else {}\n"),
    "condition-type": ("non-bool condition", "    if total { (println 1) } else {}\n"),
    "operand-type": ("int + string", "    (println (+ total \"s\"))\n"),
    "arity": ("call with one argument too many", "    (noop 1)\n"),
    "argument-type": ("int passed to a string parameter", "    (println (str_length total))\n"),
    "undefined-field": ("field that the struct does not have", "    let cp0: CP = CP { x: 1 }\n    (println cp0.zz)\n"),
    "undefined-variant": ("variant that the union does not have", "    let cu0: CU = CU.Zz { v: 1 }\n    (println 1)\n"),
    "undefined-variant-match-expression": ("match expression arm for a variant that the union does not have",
                                           "    let cu1: CU = CU.A { v: 1 }\n    let mx1: int = match cu1 { A(q1) => q1.v, Zz(q2) => 0 }\n    (println mx1)\n"),
    "undefined-variant-match-statement": ("match statement arm for a variant that the union does not have",
                                          "    let cu2: CU = CU.A { v: 1 }\n    match cu2 {\n        A(q3) => { (println q3.v) }\n        Zz(q4) => { (println 0) }\n    }\n"),
    "duplicate-arm-match-expression": ("match expression with two arms for one variant",
                                       "    let cu3: CU = CU.A { v: 1 }\n    let mx3: int = match cu3 { A(q5) => q5.v, A(q6) => 0 }\n    (println mx3)\n"),
    "set-type": ("set of a value of another type", "    let mut mv: int = 1\n    set mv \"s\"\n    (println mv)\n"),
    "unknown-function": ("call of an undefined function", "    (println (nofn_zz total))\n"),
    "consumed-resource": ("use of a resource value after it was consumed", "    let rh: RH = (mkr 1)\n    (println (closer rh))\n    (println (closer rh))\n"),
}

# ill-formed statement x where it stands: the statement rules are enforced by different code for a function body, a
# nested block, a block used as an expression (match arm), a nested function, statements after a return, ...
PLACEMENTS = {
    "if-branch": "    if true {\n@S    } else {}\n",
    "else-branch": "    if false {} else {\n@S    }\n",
    "while-body": "    let mut wi: int = 0\n    while (< wi 1) {\n        set wi 1\n@S    }\n",
    "for-body": "    for fi in (range 0 1) {\n@S    }\n",
    "unsafe-block": "    unsafe {\n@S    }\n",
    "bare-block-in-loop-in-if": "    if true {\n        for fj in (range 0 1) {\n            if true {\n@S            } else {}\n        }\n    } else {}\n",
    "match-statement-arm": "    let pu: CU = CU.A { v: 1 }\n    match pu {\n        A(pm) => {\n@S        }\n        B(pm) => { (println pm.s) }\n    }\n",
    "match-expression-arm": "    let pu: CU = CU.A { v: 1 }\n    let px: int = match pu {\n        A(pm) => {\n@S            return 0\n        }\n        B(pm) => { return 0 }\n    }\n    (println px)\n",
    "match-expression-arm-nested-if": "    let pu: CU = CU.A { v: 1 }\n    let px: int = match pu {\n        A(pm) => {\n            if true {\n@S            } else {}\n            return 0\n        }\n        B(pm) => { return 0 }\n    }\n    (println px)\n",
    "nested-function-body": "    fn inner(total: int) -> int {\n@S        return total\n    }\n    (println (inner 1))\n",
    "after-return-in-block": "    if false {\n        return 5\n@S    } else {}\n",
    "after-nested-return": "    if false {\n        if true { return 5 } else { return 6 }\n@S    } else {}\n",
}


MISSING_RETURN = [
    ("body ends in a let", "    let b: int = (+ a 1)\n    (println b)\n    let c: int = b\n"),
    ("body ends in a set", "    let mut b: int = a\n    set b 2\n"),
    ("body ends in a while loop that returns inside", "    let mut b: int = a\n    while (< b 3) {\n        set b (+ b 1)\n        if (== b 2) { return b } else {}\n    }\n"),
    ("body ends in a for loop that returns inside", "    for i in (range 0 a) {\n        return i\n    }\n"),
    ("body is an if without else that returns", "    if (> a 0) {\n        return 1\n    }\n"),
    ("then-branch returns, else-branch ends in a let", "    if (> a 0) {\n        return 1\n    } else {\n        let z: int = 2\n        (println z)\n        let y: int = z\n    }\n"),
    ("else-branch returns, then-branch ends in a set", "    let mut b: int = a\n    if (> a 0) {\n        set b 1\n    } else {\n        return 2\n    }\n"),
    ("nested if/else: the innermost else lacks the return", "    if (> a 0) {\n        if (> a 5) { return 1 } else { let q: int = 1\n (println q)\n let r: int = q }\n    } else {\n        return 2\n    }\n"),
    ("match statement: one arm lacks the return", "    let u: CU = CU.A { v: a }\n    match u {\n        A(m) => { return m.v }\n        B(m) => { (println m.s) }\n    }\n"),
    ("unsafe block without a return", "    unsafe {\n        (srand a)\n    }\n"),
    ("while true with a break", "    while true {\n        if (> a 0) { break } else { return 1 }\n    }\n"),
    ("while true whose only break is in the then-branch of an if", "    let mut b: int = a\n    while true {\n        set b (+ b 1)\n        if (> b 3) { break } else {}\n    }\n"),
    ("while true whose only break is in the else-branch of an if", "    let mut b: int = a\n    while true {\n        set b (+ b 1)\n        if (< b 3) { (println b) } else { break }\n    }\n"),
    ("while true whose break is in a match arm", "    let u: CU = CU.A { v: a }\n    while true {\n        match u {\n            A(m) => { break }\n            B(m) => { return 1 }\n        }\n    }\n"),
    ("while true whose break is inside an unsafe block inside an if", "    while true {\n        if (> a 0) { unsafe { break } } else { return 1 }\n    }\n"),
    ("while with a non-literal condition that returns inside", "    let t: bool = true\n    while t {\n        return 1\n    }\n"),
    ("body ends in an assert", "    assert (> a 0)\n"),
    ("nested function lacks its return", "    fn inner(q: int) -> int {\n        let w: int = q\n        (println w)\n        let v: int = w\n    }\n    return (inner a)\n"),
    ("return only inside a nested function", "    fn inner(q: int) -> int {\n        return q\n    }\n    (println (inner a))\n    let z: int = 1\n"),
]
RETURNS_OK = [
    ("returns on both branches", "    if (> a 0) {\n        return 1\n    } else {\n        return 2\n    }\n"),
    ("tail expression on both branches", "    if (> a 0) {\n        (+ a 1)\n    } else {\n        0\n    }\n"),
    ("while true that returns", "    let mut b: int = a\n    while true {\n        set b (+ b 1)\n        if (> b 3) { return b } else {}\n    }\n"),
    ("match statement whose arms all return", "    let u: CU = CU.A { v: a }\n    match u {\n        A(m) => { return m.v }\n        B(m) => { return 0 }\n    }\n"),
    ("return inside an unsafe block at the end", "    unsafe {\n        (srand a)\n        return 1\n    }\n"),
    ("early return then final return", "    if (> a 5) { return 9 } else {}\n    return a\n"),
    ("while true whose only break belongs to a nested loop", "    let mut b: int = a\n    while true {\n        for i in (range 0 3) { if (== i 1) { break } else {} }\n        set b (+ b 1)\n        if (> b 3) { return b } else {}\n    }\n"),
    ("while true with a conditional break followed by a return", "    let mut b: int = a\n    while true {\n        set b (+ b 1)\n        if (> b 3) { break } else {}\n    }\n    return b\n"),
]


# every built-in's declared parameter types x every argument type that is not convertible to it
BI_LIT = {"I": "1", "F": "1.5", "B": "true", "S": '"ab"', "A": "[1, 2, 3]", "struct": "vst", "function": "inc", "tuple": "vtup", "union": "vun"}
BI_PRE = ("struct P { x: int }\nunion UU { L { v: int }, R { s: string } }\nfn inc(a: int) -> int { return (+ a 1) }\nshadow inc { assert true }\n")


def builtin_matrix():
    reg = open(os.path.join(common.REPO, "src/builtins_registry.c")).read()
    ents = re.findall(r'\{"(\w+)",\s*"?\w*"?,\s*(\d+),\s*\{(\w),(\w),(\w),(\w)\},\s*(\w),\s*\w+,\s*([^}]*)\}', reg)
    if len(ents) < 80:
        raise common.HarnessError("cannot parse src/builtins_registry.c (%d entries)" % len(ents))
    numeric = ("I", "F")
    for name, ar, a, b, c, d, ret, flags in ents:
        ps = [a, b, c, d][:int(ar)]
        if name in ("range", "print", "println", "assert"):
            continue
        for i, pt in enumerate(ps):
            if pt not in "IFBSA":
                continue      # 'unknown' parameters are typed by per-built-in rules
            for wt in ("I", "F", "B", "S", "A", "struct", "function", "tuple", "union"):
                if wt == pt or (wt in numeric and pt in numeric):
                    continue      # int <-> float arguments of numeric built-ins are accepted by design
                args = [BI_LIT.get(q, "1") for q in ps]
                args[i] = BI_LIT[wt]
                src = (BI_PRE + 'fn main() -> int {\n    (println "SENTINEL")\n    let vst: P = P { x: 1 }\n    let vtup: (int, int) = (1, 2)\n    let vun: UU = UU.L { v: 1 }\n'
                       '    unsafe { (%s %s) }\n    return 0\n}\nshadow main { assert true }\n' % (name, " ".join(args)))
                yield "argument-type", "built-in %s: argument %d (declared %s) := a %s value" % (name, i + 1, {"I": "int", "F": "float", "B": "bool", "S": "string", "A": "array"}[pt],
                                                                                                {"I": "int", "F": "float", "B": "bool", "S": "string", "A": "array"}.get(wt, wt)), src


def context_product(tier="quick"):
    if tier == "thorough":
        # the full cross product: every rule violation, in every statement position, after every scope-shaping context,
        # and after every PAIR of contexts
        head0 = CTX_HEAD + "fn noop() -> void { (println 0) }\nshadow noop { assert true }\n"
        ctxs = list(CONTEXTS.items())
        for (c1n, c1), (c2n, c2) in [(a_, b_) for a_ in ctxs for b_ in ctxs if a_[0] != "none" and b_[0] != "none" and a_[0] != b_[0]]:
            for rule, (desc, stmt) in ILL.items():
                body = "    let total: int = 4\n" + c1 + c2 + '    (println "SENTINEL")\n' + stmt + "    return total\n"
                yield rule, "%s after [%s] then [%s]" % (desc, c1n, c2n), head0 + "fn main() -> int {\n" + body + "}\nshadow main { assert true }\n"
        for cn, ctx in ctxs:
            if cn == "none":
                continue
            for pn, pl in PLACEMENTS.items():
                for rule, (desc, stmt) in ILL.items():
                    if rule == "break-outside-loop" and pn in ("while-body", "for-body", "bare-block-in-loop-in-if"):
                        continue
                    if rule == "extern-outside-unsafe" and pn == "unsafe-block":
                        continue
                    body = "    let total: int = 4\n" + ctx + '    (println "SENTINEL")\n' + pl.replace("@S", stmt) + "    return total\n"
                    yield rule, "%s placed in [%s] after [%s]" % (desc, pn, cn), head0 + "fn main() -> int {\n" + body + "}\nshadow main { assert true }\n"
    for cn, ctx in CONTEXTS.items():
        for rule, (desc, stmt) in ILL.items():
            for where in ("same-function", "earlier-function"):
                if where == "same-function":
                    body = "    let total: int = 4\n" + ctx + '    (println "SENTINEL")\n' + stmt + "    return total\n"
                    src = CTX_HEAD + "fn noop() -> void { (println 0) }\nshadow noop { assert true }\nfn main() -> int {\n" + body + "}\nshadow main { assert true }\n"
                else:
                    first = "fn first() -> int {\n    let total: int = 4\n" + ctx + "    return total\n}\nshadow first { assert true }\n"
                    body = "    let total: int = (first)\n" + '    (println "SENTINEL")\n' + stmt + "    return total\n"
                    src = CTX_HEAD + "fn noop() -> void { (println 0) }\nshadow noop { assert true }\n" + first + "fn main() -> int {\n" + body + "}\nshadow main { assert true }\n"
                yield rule, "%s after [%s] in the %s" % (desc, cn, where), src
    head = CTX_HEAD + "fn noop() -> void { (println 0) }\nshadow noop { assert true }\n"
    for pn, pl in PLACEMENTS.items():
        for rule, (desc, stmt) in ILL.items():
            if rule == "break-outside-loop" and pn in ("while-body", "for-body", "bare-block-in-loop-in-if"):
                continue      # legal there
            if rule == "extern-outside-unsafe" and pn == "unsafe-block":
                continue      # legal there
            body = "    let total: int = 4\n" + '    (println "SENTINEL")\n' + pl.replace("@S", stmt) + "    return total\n"
            yield rule, "%s placed in [%s]" % (desc, pn), head + "fn main() -> int {\n" + body + "}\nshadow main { assert true }\n"
        ok = "    (println total)\n"
        body = "    let total: int = 4\n" + '    (println "SENTINEL")\n' + pl.replace("@S", ok) + "    return 0\n"
        yield "seed", "placement [%s] with a well-formed statement" % pn, head + "fn main() -> int {\n" + body + "}\nshadow main { assert true }\n"
    # nominal struct typing (return / let / set / argument of ANOTHER struct type) after every scope-shaping context, in a
    # function that returns a struct
    nom_head = head + "struct CQ { x: int }\nfn takes_cp(p: CP) -> int { return p.x }\nshadow takes_cp { assert true }\n"
    NOMINAL = {
        "return of another struct type": "    return CQ { x: 2 }\n",
        "let of another struct type": "    let w: CP = CQ { x: 2 }\n    return w\n",
        "set to another struct type": "    let mut w: CP = CP { x: 1 }\n    set w CQ { x: 2 }\n    return w\n",
        "argument of another struct type": "    (println (takes_cp CQ { x: 2 }))\n    return CP { x: 1 }\n",
        "returned variable of another struct type": "    let q: CQ = CQ { x: 2 }\n    return q\n",
    }
    for cn, ctx in CONTEXTS.items():
        if "return 9" in ctx:
            ctx = ctx.replace("return 9", "return CP { x: 9 }")
        for desc, stmt in NOMINAL.items():
            src = (nom_head + "fn mkcp(seed: int) -> CP {\n    let total: int = seed\n" + ctx + stmt + "}\nshadow mkcp { assert true }\n"
                   'fn main() -> int {\n    (println "SENTINEL")\n    let r: CP = (mkcp 4)\n    (println r.x)\n    return 0\n}\nshadow main { assert true }\n')
            yield "struct-type", "%s after [%s]" % (desc, cn), src
        src = (nom_head + "fn mkcp(seed: int) -> CP {\n    let total: int = seed\n" + ctx + "    return CP { x: total }\n}\nshadow mkcp { assert true }\n"
               'fn main() -> int {\n    (println "SENTINEL")\n    let r: CP = (mkcp 4)\n    (println r.x)\n    return 0\n}\nshadow main { assert true }\n')
        yield "seed", "struct-returning function with context [%s]" % cn, src
    # argument types are checked per position, whatever kind of parameter precedes or follows: every ordered pair of
    # parameter kinds, the wrong argument in the first and in the second position
    PK = {"int": ("int", "1", '"s"'), "string": ("string", '"s"', "1"), "bool": ("bool", "true", "1"), "float": ("float", "1.5", '"s"'),
          "struct": ("CP", "CP { x: 1 }", "1"), "array": ("array<int>", "[1, 2]", '"s"'), "union": ("CU", "CU.A { v: 1 }", "1"),
          "function": ("fn(int) -> int", "pk_inc", '"s"'), "opaque": ("PKHandle", "0", '"s"'), "enum": ("PKE", "PKE.A", '"s"')}
    pk_head = head + "opaque type PKHandle\nenum PKE { A, B }\nfn pk_inc(a: int) -> int { return (+ a 1) }\nshadow pk_inc { assert true }\n"
    for k0, (t0, ok0, bad0) in PK.items():
        for k1, (t1, ok1, bad1) in PK.items():
            decl = "fn pk2(p0: %s, p1: %s) -> int { return 1 }\nshadow pk2 { assert true }\n" % (t0, t1)
            for pos, a0, a1 in ((0, bad0, ok1), (1, ok0, bad1)):
                src = pk_head + decl + 'fn main() -> int {\n    (println "SENTINEL")\n    (println (pk2 %s %s))\n    return 0\n}\nshadow main { assert true }\n' % (a0, a1)
                yield "argument-type", "parameters (%s, %s): wrong argument in position %d" % (k0, k1, pos + 1), src
            src = pk_head + decl + 'fn main() -> int {\n    (println "SENTINEL")\n    (println (pk2 %s %s))\n    return 0\n}\nshadow main { assert true }\n' % (ok0, ok1)
            yield "seed", "parameters (%s, %s) with well-typed arguments" % (k0, k1), src
    # a function that declares a result must return one on every path
    for desc, body in MISSING_RETURN:
        yield "missing-return", desc, head + "fn g(a: int) -> int {\n" + body + "}\nshadow g { assert true }\nfn main() -> int {\n    (println \"SENTINEL\")\n    (println (g 1))\n    return 0\n}\nshadow main { assert true }\n"
    for desc, body in RETURNS_OK:
        yield "seed", desc, head + "fn g(a: int) -> int {\n" + body + "}\nshadow g { assert true }\nfn main() -> int {\n    (println \"SENTINEL\")\n    (println (g 1))\n    return 0\n}\nshadow main { assert true }\n"
    # the contexts themselves (no ill-formed statement) must be accepted, otherwise the product proves nothing
    for cn, ctx in CONTEXTS.items():
        body = "    let total: int = 4\n" + ctx + '    (println "SENTINEL")\n    return 0\n'
        yield "seed", "context [%s] alone" % cn, CTX_HEAD + "fn noop() -> void { (println 0) }\nshadow noop { assert true }\nfn main() -> int {\n" + body + "}\nshadow main { assert true }\n"


def _tools(args):
    root, work, envx, idx, src = args
    d = os.path.join(work, "t%d" % idx)
    os.makedirs(d, exist_ok=True)
    p = os.path.join(d, "m.nano")
    open(p, "w").write(src)
    res = {"idx": idx}
    virt = os.path.join(root, "bin/nano_virt")
    nanoc = os.path.join(root, "bin/nanoc_c")
    for tool, cmd, art in (("nanoc -o", [nanoc, p, "-o", os.path.join(d, "out.bin")], os.path.join(d, "out.bin")),
                           ("nano_virt --run", [virt, p, "--run"], None),
                           ("nano_virt --emit-nvm -o", [virt, p, "--emit-nvm", "-o", os.path.join(d, "out.nvm")], os.path.join(d, "out.nvm"))):
        rc, o, e = common.run(cmd, timeout=120, cwd=d, envx=envx)
        res[tool] = {"rc": rc, "diag": len(e) > 0 or b"rror" in o, "artifact": bool(art and os.path.exists(art)), "sentinel": b"SENTINEL" in o,
                     "err": (e[-4000:] + o[-200:]).decode(errors="replace")}
    return res


def run(tier):
    rep = common.Report("C05", tier)
    tree = common.build_tree("plain")
    probe = tree.build_probe(os.path.join(common.VERIF, "vf/probes/fe_probe.c"), "fe_probe")
    work = os.path.join(common.scratch(), "c05")
    os.makedirs(work, exist_ok=True)
    lang = langrun.Lang(tree, os.path.join(common.scratch(), "c05lang"))
    lang.warm()
    pr = nr.Printer()
    muts = []
    for name, prog in seeds():
        # the seed itself must be accepted and run (otherwise every mutant would be vacuously rejected)
        muts.append(("seed", name + ": unmodified seed", pr.program(prog), True))
        for rule, desc, p2 in mutants(name, prog):
            muts.append((rule, desc, pr.program(p2), False))
    for rule, desc, text in EXTRA_TEXT:
        muts.append((rule, desc, text, False))
    for rule, desc, text in context_product(tier):
        muts.append((rule, desc, text, rule == "seed"))
    for rule, desc, text in builtin_matrix():
        muts.append((rule, desc, text, False))
    rec = os.path.join(work, "muts.bin")
    with open(rec, "wb") as f:
        for m in muts:
            b = m[2].encode()
            f.write(struct.pack("<I", len(b)) + b)
    rc, out, err = common.run([probe, rec, "0", "0", "10", "nocodegen", "verdicts"], timeout=3600)
    verd = {}
    for l in out.decode().splitlines():
        if l.startswith("V "):
            _v, i, a = l.split()
            verd[int(i)] = a
        elif l.startswith("BAD"):
            i = int(re.search(r"idx=(\d+)", l).group(1))
            verd[i] = "X"
    if len(verd) != len(muts):
        raise common.HarnessError("fe_probe verdicts incomplete: %d of %d" % (len(verd), len(muts)))
    findings = dict((f["id"], f) for f in common.load_findings("C05"))
    # tools: all accepted (or crashed) mutants + the seeds + every 7th rejected mutant
    sel = [i for i, m in enumerate(muts) if verd[i] != "R" or m[3] or i % 7 == 0]
    jobs = [(tree.root, work, lang.envx, i, muts[i][2]) for i in sel]
    by_rule = {}
    accepted_by_checker = 0
    seeds_refused = []
    for r in common.pimap(_tools, jobs):
        i = r["idx"]
        rule, desc, text, is_seed = muts[i]
        rep.count("transitions", 3)
        if is_seed:
            bad_tools = [tool for tool in ("nanoc -o", "nano_virt --run", "nano_virt --emit-nvm -o") if r[tool]["rc"] != 0]
            if bad_tools and ("nested-fn" in desc or "nested-function" in desc) and bad_tools == ["nanoc -o"]:
                continue      # nested functions do not compile natively (C04's open finding); the bytecode tools judge these contexts
            if bad_tools:
                # a valid seed that is refused is not this property's violation (C02 / C04 judge it); its mutants are
                # vacuously rejected, so it must not go unnoticed either
                seeds_refused.append("%s is not accepted by %s: %s" % (desc, bad_tools[0], r[bad_tools[0]]["err"][-300:]))
            continue
        if verd[i] == "A":
            accepted_by_checker += 1
        problems = []
        for tool in ("nanoc -o", "nano_virt --run", "nano_virt --emit-nvm -o"):
            t = r[tool]
            if t["rc"] == 0:
                problems.append("%s exits 0" % tool)
            if t["artifact"]:
                problems.append("%s wrote its output file" % tool)
            if t["sentinel"]:
                problems.append("%s executed the program (sentinel printed)" % tool)
            if t["rc"] != 0 and not t["diag"]:
                problems.append("%s fails without a diagnostic" % tool)
        if problems:
            fid = None
            if rule == "out-of-scope" and "typechecker-scope-leak-accepts-out-of-scope" in findings:
                # signature: the only rule violated is a reference to a variable whose scope has ended / is another
                # function's; failure class: accepted by type_check, then refused late (cc / codegen) or run
                fid = "typechecker-scope-leak-accepts-out-of-scope"
            said = [t for t in ("nanoc -o", "nano_virt --run", "nano_virt --emit-nvm -o") if "after it has been consumed" in r[t]["err"] or "already consumed" in r[t]["err"]]
            if rule == "consumed-resource" and "resource-use-after-consume-not-fatal" in findings and said and all(
                    t in said for t in ("nanoc -o", "nano_virt --run", "nano_virt --emit-nvm -o") if r[t]["rc"] == 0):
                # signature: the only rule violated is the affine one, and every tool that went on DID print the
                # use-after-consume diagnostic (a tool stopped by something else, e.g. the C compiler, is not the finding's business)
                fid = "resource-use-after-consume-not-fatal"
            if fid:
                rep.known_finding(fid, findings[fid]["what"])
                continue
            rep.violation("c05:%s:%s" % (rule, desc), {"mutant.nano": text, "observed.txt": "\n".join("%s: rc=%s artifact=%s sentinel=%s\n%s" % (k, v["rc"], v["artifact"], v["sentinel"], v["err"]) for k, v in r.items() if isinstance(v, dict))},
                          "[%s] %s: %s" % (rule, desc, "; ".join(problems)), "bin/nanoc_c mutant.nano -o out; bin/nano_virt mutant.nano --run; bin/nano_virt mutant.nano --emit-nvm -o out.nvm")
    for i, m in enumerate(muts):
        by_rule[m[0]] = by_rule.get(m[0], 0) + 1
    rep.count("states", len(muts))
    rep.count("traces_validated_against_impl", len(sel))
    rep.count("transitions", len(muts))
    rep.coverage.update({"mutants": len(muts), "per_rule": by_rule, "accepted_by_type_check": accepted_by_checker, "pushed_through_real_tools": len(sel),
                         "rejected_by_type_check": sum(1 for v in verd.values() if v == "R")})
    rep.sample({"rule": muts[5][0], "what": muts[5][1]})
    rep.sample({"rule": muts[len(muts) // 2][0], "what": muts[len(muts) // 2][1], "source_tail": muts[len(muts) // 2][2][-300:]})
    rep.sample({"rule": muts[-3][0], "what": muts[-3][1], "source": muts[-3][2]})
    rep.assumptions += ["every mutant violates its rule by construction (type-directed operators over well-typed seeds)",
                        "extern calls inside expressions without 'unsafe' are not judged: the specification's own section 6.4 example does exactly that",
                        "resource (affine) types: only the use-after-consume rule, on one straight-line shape per placement / context"]
    rep.coverage["seeds_refused"] = len(seeds_refused)
    if seeds_refused and not rep.violations:
        # nothing else was found, and part of the enumeration was vacuous: that is a machinery problem, not a verdict
        raise common.HarnessError("seed " + seeds_refused[0])
    if len(muts) < 300:
        raise common.HarnessError("vacuous C05")
    return rep.finish()
