"""C18  The daemon survives malformed and abandoned client sessions.

(A) sequences against the real daemon (ASan+UBSan build, private socket through hook H2): ALL sequences of
    length <= L over an alphabet of ~30 client behaviours (well-formed exec / ping / status, header only,
    payload truncated at every length class, garbage, wrong version, unknown type, oversized / zero /
    inconsistent lengths, non-module payload, hostile modules with a valid checksum, disconnect before /
    during / after the reply) are applied to ONE live daemon - so later sequences start from non-initial
    states - and after every sequence a probe transaction must succeed: PING -> PONG, a well-formed exec
    returns its standalone result, STATUS settles at active_clients=1.  A dead daemon is re-attributed to
    the shortest sequence that kills a fresh one.
(B) every behaviour concurrently with a well-formed client on the real daemon (free-running).
(C) every misbehaviour that can be scripted in advance (disconnect before the server's k-th write for
    every k, request truncated at every length class, garbage, ping, status) against a well-formed session
    under the vmd_mc scheduler: every schedule with <= 2 preemptions; the well-formed session's reply must
    equal its solo reply, no crash, no stuck thread, g_active_clients back to 0.
"""
import glob
import itertools
import os
import re
import socket
import struct
import threading
import time

from .. import common, vmd, nvmfmt
from . import c17

M = vmd.MSG


def hostile_modules(base, limit):
    """valid-checksum images one byte away from a compiler-produced module (code section of every function
    start, function table, string lengths); the loader accepts many of them - the daemon must survive all"""
    out = []
    nsec = struct.unpack_from("<I", base, 16)[0]
    secs = [struct.unpack_from("<III", base, 32 + 12 * i) for i in range(nsec)]
    for (t, o, s) in secs:
        if t not in (nvmfmt.SEC_CODE, nvmfmt.SEC_FUNCTIONS, nvmfmt.SEC_STRINGS):
            continue
        for k in range(0, min(s, 160)):
            for v in (0x00, 0xFF, (base[o + k] + 1) & 0xFF, base[o + k] ^ 0x80):
                if v == base[o + k]:
                    continue
                b = bytearray(base)
                b[o + k] = v
                struct.pack_into("<I", b, 28, nvmfmt.crc32(bytes(b[32:])))
                out.append(("hostile:sec%d+%d=%02x" % (t, k, v), bytes(b)))
    step = max(1, len(out) // limit)
    return out[::step][:limit]


class Ctx:
    def __init__(self, mods):
        self.mods = {k: open(v, "rb").read() for k, v in mods.items()}


def behaviours(ctx, tier):
    """name -> (request builder, how the client behaves); each returns a list of protocol steps:
    ('send', bytes) | ('recv_all',) | ('recv_frames', n) | ('close',) | ('sleep', s)"""
    ok = ctx.mods["s_glob_a"]
    err = ctx.mods["s_err_oob"]
    lng = ctx.mods["s_long"]
    B = {}
    B["exec_ok"] = [("send", vmd.frame(M["LOAD_EXEC"], ok)), ("recv_all",)]
    B["exec_err"] = [("send", vmd.frame(M["LOAD_EXEC"], err)), ("recv_all",)]
    B["exec_long"] = [("send", vmd.frame(M["LOAD_EXEC"], lng)), ("recv_all",)]
    # a session whose program really calls C code: the daemon starts (and afterwards reaps) a co-process for it,
    # so the sessions that follow it meet whatever process-wide state that start / teardown left behind
    B["exec_ffi"] = [("send", vmd.frame(M["LOAD_EXEC"], ctx.mods["s_extern"])), ("recv_all",)]
    # a hostile but well-formed module whose C call kills the session's co-process (extern abort()): the daemon must
    # report the failed call to that client and go on serving
    B["exec_ffi_kills_coprocess"] = [("send", vmd.frame(M["LOAD_EXEC"], ctx.mods["s_copdeath"])), ("recv_all",)]
    B["ping"] = [("send", vmd.frame(M["PING"])), ("recv_all",)]
    B["status"] = [("send", vmd.frame(M["STATUS"])), ("recv_all",)]
    B["connect_close"] = [("close",)]
    B["header_only"] = [("send", vmd.frame(M["LOAD_EXEC"], b"", length=len(ok))), ("close",)]
    B["half_header"] = [("send", vmd.frame(M["LOAD_EXEC"], ok)[:4]), ("close",)]
    for nm, n in (("1", 1), ("half", len(ok) // 2), ("lenm1", len(ok) - 1)):
        B["trunc_" + nm] = [("send", vmd.frame(M["LOAD_EXEC"], ok)[:8 + n]), ("close",)]
    B["garbage8"] = [("send", bytes(range(200, 208))), ("recv_all",)]
    B["garbage64"] = [("send", bytes((i * 37 + 11) & 0xFF for i in range(64))), ("recv_all",)]
    B["wrong_version"] = [("send", vmd.frame(M["LOAD_EXEC"], ok, version=2)), ("recv_all",)]
    B["unknown_type"] = [("send", vmd.frame(0x7E, b"abc")), ("recv_all",)]
    B["server_type_from_client"] = [("send", vmd.frame(M["OUTPUT"], b"hello")), ("recv_all",)]
    B["len_max_plus_1"] = [("send", vmd.frame(M["LOAD_EXEC"], b"", length=vmd.VMD_MAX_PAYLOAD + 1)), ("recv_all",)]
    B["len_ffffffff"] = [("send", vmd.frame(M["LOAD_EXEC"], b"", length=0xFFFFFFFF)), ("recv_all",)]
    B["len_zero"] = [("send", vmd.frame(M["LOAD_EXEC"], b"")), ("recv_all",)]
    B["len_max_then_close"] = [("send", vmd.frame(M["LOAD_EXEC"], b"x" * 16, length=vmd.VMD_MAX_PAYLOAD)), ("close",)]
    B["ping_with_payload"] = [("send", vmd.frame(M["PING"], b"zzzz")), ("recv_all",)]
    B["two_requests"] = [("send", vmd.frame(M["PING"]) + vmd.frame(M["LOAD_EXEC"], ok)), ("recv_all",)]
    B["non_module"] = [("send", vmd.frame(M["LOAD_EXEC"], b"this is not a module " * 8)), ("recv_all",)]
    B["magic_only"] = [("send", vmd.frame(M["LOAD_EXEC"], b"NVM\x01" + b"\0" * 28)), ("recv_all",)]
    B["drop_before_reply"] = [("send", vmd.frame(M["LOAD_EXEC"], lng)), ("close",)]
    B["drop_after_first_frame"] = [("send", vmd.frame(M["LOAD_EXEC"], lng)), ("recv_frames", 1), ("close",)]
    B["drop_mid_frame"] = [("send", vmd.frame(M["LOAD_EXEC"], lng)), ("recv_bytes", 11), ("close",)]
    B["drop_after_exit"] = [("send", vmd.frame(M["LOAD_EXEC"], ok)), ("recv_all",), ("close",)]
    B["half_close_write"] = [("send", vmd.frame(M["LOAD_EXEC"], ok)), ("shut_wr",), ("recv_all",)]
    hm = hostile_modules(ok, 10 if tier == "quick" else 60)
    for nm, img in hm:
        B[nm] = [("send", vmd.frame(M["LOAD_EXEC"], img)), ("recv_all",)]
    return B


def play(daemon, steps, timeout=4.0):
    """-> dict(reply bytes, closed)"""
    res = {"data": b"", "closed": None, "error": None}
    try:
        s = daemon.connect(timeout)
    except OSError as e:
        res["error"] = "connect: %s" % e
        return res
    try:
        for st in steps:
            if st[0] == "send":
                try:
                    s.sendall(st[1])
                except OSError as e:      # the server may legitimately have closed already
                    res["error"] = "send: %s" % e.__class__.__name__
            elif st[0] == "recv_all":
                d, c = vmd.recv_all(s)
                res["data"] += d
                res["closed"] = c
            elif st[0] == "recv_frames":
                for _ in range(st[1]):
                    h = s.recv(8, socket.MSG_WAITALL)
                    if len(h) < 8:
                        break
                    ln = struct.unpack_from("<I", h, 4)[0]
                    res["data"] += h + (s.recv(ln, socket.MSG_WAITALL) if ln else b"")
            elif st[0] == "recv_bytes":
                res["data"] += s.recv(st[1], socket.MSG_WAITALL)
            elif st[0] == "shut_wr":
                s.shutdown(socket.SHUT_WR)
            elif st[0] == "close":
                break
    except (socket.timeout, OSError) as e:
        res["error"] = "%s" % e.__class__.__name__
    finally:
        s.close()
    return res


class Prober:
    def __init__(self, ctx, solo):
        self.ctx = ctx
        self.solo = solo      # name -> (stdout, errs, code)

    def probe(self, daemon, check_status=True):
        """-> None if healthy, else text"""
        self.check_status = check_status
        if not daemon.alive():
            return "daemon process is dead (rc=%s)" % daemon.p.returncode
        try:
            return self._probe(daemon)
        except OSError as ex:
            return "daemon no longer reachable: %s (%s)" % (ex.__class__.__name__, "process dead" if not daemon.alive() else "process alive")

    def _probe(self, daemon):
        r = play(daemon, [("send", vmd.frame(M["PING"])), ("recv_all",)], timeout=3.0)
        if len(r["data"]) < 2 or r["data"][1] != M["PONG"]:
            return "PING not answered with PONG: %r" % r["data"][:32]
        o, e, c, wf, closed = vmd.transact(daemon, vmd.frame(M["LOAD_EXEC"], self.ctx.mods["s_silent"]), timeout=5.0)
        if (o, e, c) != self.solo["s_silent"]:
            return "well-formed exec after the sequence returned stdout=%r errors=%r exit=%s instead of %r" % (o, e, c, self.solo["s_silent"])
        o, e, c, wf, closed = vmd.transact(daemon, vmd.frame(M["LOAD_EXEC"], self.ctx.mods["s_glob_b"]), timeout=5.0)
        if (o, e, c) != self.solo["s_glob_b"]:
            return "well-formed exec after the sequence returned stdout=%r errors=%r exit=%s instead of %r" % (o, e, c, self.solo["s_glob_b"])
        if not self.check_status:      # sessions running a looping program are legitimately still active
            return None
        # STATUS must settle at 1 (only the asking session): abandoned sessions may still be winding down
        t0 = time.time()
        last = None
        while time.time() - t0 < 3.0:
            r = play(daemon, [("send", vmd.frame(M["STATUS"])), ("recv_all",)], timeout=3.0)
            m = re.search(rb"active_clients=(\d+)", r["data"])
            last = m.group(1).decode() if m else repr(r["data"][:40])
            if last == "1":
                return None
            time.sleep(0.05)
        return "STATUS does not settle at active_clients=1 (last: %s): a session count leaked or a session thread is stuck" % last


def run(tier):
    rep = common.Report("C18", tier, level="fault_enumeration")
    rep.set_deadline(1500 if tier == "quick" else 5400)
    asan = common.build_tree("asan")
    plain = common.build_tree("plain")
    mc = vmd.build_mc(plain)
    work = os.path.join(common.scratch(), "c18")
    mods = vmd.compile_corpus(plain, os.path.join(work, "mods"), extra_sources=sorted(glob.glob(os.path.join(common.VERIF, "vf/corpus_c18/*.nano"))))
    ctx = Ctx(mods)
    B = behaviours(ctx, tier)
    names = list(B)

    def fresh(tag):
        return vmd.Daemon(asan, os.path.join(work, tag), extra_env={"ASAN_OPTIONS": "detect_leaks=0:abort_on_error=0", "UBSAN_OPTIONS": "print_stacktrace=1"})

    # reference results of well-formed sessions from a fresh daemon, cross-checked against standalone nano_vm
    d = fresh("ref")
    solo = {}
    try:
        for n in ("s_silent", "s_glob_a", "s_glob_b", "s_long", "s_err_oob", "s_extern"):
            o, e, c, wf, closed = vmd.transact(d, vmd.frame(M["LOAD_EXEC"], ctx.mods[n]))
            solo[n] = (o, e, c)
            rc, so, se = c17.client_run(plain, mods[n])
            if c is None or rc != (c & 0xFF) or so != o:
                raise common.HarnessError("reference session %s through the daemon (%r) differs from standalone (%r): C17's business, cannot anchor C18" % (n, (o, e, c), (rc, so, se)))
    finally:
        d.stop()
    prober = Prober(ctx, solo)
    WELL = {"exec_ok": "s_glob_a", "exec_err": "s_err_oob", "exec_long": "s_long", "exec_ffi": "s_extern"}

    # ------------------------------------------------------------------ (A) sequences on one live daemon
    L = 2 if tier == "quick" else 3
    core = [n for n in names if not n.startswith("hostile:")] if tier != "quick" else names
    seqs = [(n,) for n in names] + list(itertools.product(names, repeat=2))
    if L >= 3:
        c3 = [n for n in names if not n.startswith("hostile:")][:24] + [n for n in names if n.startswith("hostile:")][:4]
        seqs += list(itertools.product(c3, repeat=3))
    d = fresh("seq")
    nseq = ntrans = 0
    outcomes = set()
    try:
        for sq in seqs:
            if rep.out_of_time():
                break
            if len(rep.violations) >= 6:        # a broken tree: enough evidence, do not grind through the rest
                rep.exhaustive = False
                break
            for b in sq:
                r = play(d, B[b])
                ntrans += 1
                o, e, c, wf = vmd.decode_frames(r["data"].hex()) if r["data"] else (b"", [], None, True)
                outcomes.add((b if not b.startswith("hostile") else "hostile", "error-frame" if e else "", "exit" if c is not None else "", "closed" if r["closed"] else ""))
                if b in WELL and (o, e, c) != solo[WELL[b]]:
                    rep.violation("seq-wellformed:" + b, {"sequence.txt": "\n".join(sq) + "\n", "daemon_stderr.txt": d.stderr_text()[-10000:]},
                                  "the well-formed session '%s' inside the sequence %s got stdout=%r.. errors=%r exit=%s instead of its standalone result" % (b, " -> ".join(sq), (o or b"")[:60], e, c))
            nseq += 1
            bad = prober.probe(d)
            ntrans += 4
            if bad:
                # attribute to the shortest prefix that reproduces it from a fresh daemon
                culprit = None
                for k in range(1, len(sq) + 1):
                    d2 = fresh("attr")
                    try:
                        for b in sq[:k]:
                            play(d2, B[b])
                        bad2 = prober.probe(d2)
                        err2 = d2.stderr_text()
                    finally:
                        d2.stop()
                    if bad2:
                        culprit = (sq[:k], bad2, err2)
                        break
                errtxt = d.stderr_text()
                who = culprit[0] if culprit else sq
                key = "seq:" + "/".join(re.sub(r"\+\d+=\w+", "", b) for b in who) + ":" + re.sub(r"\d+", "N", (culprit[1] if culprit else bad))[:60]
                rep.violation(key, {"sequence.txt": "\n".join(who) + "\n", "daemon_stderr.txt": (culprit[2] if culprit else errtxt)[-20000:],
                                    "requests.bin": b"".join(st[1] for b in who for st in B[b] if st[0] == "send")[:200000]},
                              "after client behaviour sequence %s%s: %s" % (" -> ".join(who), "" if culprit else " (only reproducible after the earlier history on the long-lived daemon)", culprit[1] if culprit else bad),
                              "# start bin/nano_vmd --foreground with NANOLANG_VMD_SOCKET set; replay requests.bin behaviour by behaviour (see vf/checks/c18.py behaviours())")
                d.stop()
                d = fresh("seq%d" % nseq)
        san = d.stderr_text()
    finally:
        d.stop()
    if re.search(r"ERROR: AddressSanitizer|runtime error:", san):
        m = re.search(r"(ERROR: AddressSanitizer: \S+|runtime error: [^\n]*)", san)
        rep.violation("sanitizer:" + re.sub(r"\d+", "N", m.group(1))[:80], {"daemon_stderr.txt": san[-30000:]},
                      "sanitizer report in the daemon while serving the behaviour sequences: %s" % m.group(1))
    rep.count("evaluations", ntrans)
    rep.coverage["sequences"] = nseq
    rep.coverage["behaviours"] = len(names)
    rep.coverage["distinct_session_outcome_classes"] = len(outcomes)

    # ------------------------------------------------------------------ (B) each behaviour concurrent with a well-formed client
    d = fresh("conc")
    try:
        for b in names:
            if len(rep.violations) >= 10:
                rep.exhaustive = False
                break
            got = {}

            def good():
                try:
                    got["r"] = vmd.transact(d, vmd.frame(M["LOAD_EXEC"], ctx.mods["s_long"]), timeout=20.0)
                except OSError as ex:
                    got["r"] = (None, ["connection failed: %s" % ex.__class__.__name__], None, False, True)
            th = threading.Thread(target=good)
            th.start()
            play(d, B[b])
            th.join()
            ntrans += 2
            o, e, c, wf, closed = got.get("r", (None,) * 5)
            if (o, e, c) != solo["s_long"]:
                rep.violation("concurrent:" + re.sub(r"\+\d+=\w+", "", b), {"behaviour.txt": b + "\n", "daemon_stderr.txt": d.stderr_text()[-10000:]},
                              "a well-formed client served while another client does '%s' got stdout=%r.. errors=%r exit=%s instead of its standalone result" % (b, (o or b"")[:60], e, c))
            bad = prober.probe(d)
            if bad:
                rep.violation("concurrent-probe:" + re.sub(r"\+\d+=\w+", "", b), {"behaviour.txt": b + "\n", "daemon_stderr.txt": d.stderr_text()[-10000:]},
                              "after '%s' concurrent with a well-formed client: %s" % (b, bad))
                d.stop()
                d = fresh("conc2")
    finally:
        d.stop()
    rep.count("evaluations", 2 * len(names))

    # ------------------------------------------------------------------ (D) hostile-module sweep on the real daemon
    sweep = []
    for mn in ("s_glob_a", "s_struct", "s_strings", "s_err_assert"):
        sweep += [(mn + ":" + nm, img) for nm, img in hostile_modules(ctx.mods[mn], 10 ** 9)]
    if tier == "quick":
        sweep = sweep[::max(1, len(sweep) // 800)]
    d = fresh("sweep")
    nsw = 0
    hung = 0
    try:
        for nm, img in sweep:
            if len(rep.violations) >= 12 or rep.out_of_time():
                rep.exhaustive = False
                break
            r = play(d, [("send", vmd.frame(M["LOAD_EXEC"], img)), ("recv_all",)], timeout=1.0)
            nsw += 1
            if r["error"] == "timeout" or r["closed"] is False:
                hung += 1          # a hostile program may loop forever: that pins its own session only
            if not d.alive() or (nsw % 200 == 0 and prober.probe(d, check_status=False)):
                why = "daemon died" if not d.alive() else prober.probe(d, check_status=False)
                txt = d.stderr_text()
                m = re.search(r"(ERROR: AddressSanitizer: \S+|runtime error: [^\n]*)", txt)
                fr = re.findall(r"#\d+ 0x[0-9a-f]+ in (\w+)", txt)[:3]
                rep.violation("sweep:" + (re.sub(r"\d+", "N", m.group(1))[:60] if m else why[:40]) + ":" + ",".join(fr),
                              {"hostile.nvm": img, "daemon_stderr.txt": txt[-20000:], "which.txt": nm + "\n"},
                              "hostile module %s (valid checksum) submitted to the daemon: %s%s" % (nm, why, (" - " + m.group(1) + " in " + " <- ".join(fr)) if m else ""),
                              "# bin/nano_vm --daemon hostile.nvm against a private nano_vmd (asan build)")
                d.stop()
                d = fresh("sweep%d" % nsw)
        bad = prober.probe(d, check_status=False)
        if bad and len(rep.violations) < 12:
            rep.violation("sweep-end", {"daemon_stderr.txt": d.stderr_text()[-20000:]}, "after the hostile-module sweep: %s" % bad)
    finally:
        d.stop()
    rep.count("evaluations", nsw)
    rep.coverage["hostile_modules_submitted"] = nsw
    rep.coverage["hostile_sessions_still_running_at_client_timeout"] = hung

    # ------------------------------------------------------------------ (C) scripted misbehaviour under the scheduler
    good = mods["s_glob_a"]
    victim = mods["s_strings"]
    vlen = len(ctx.mods["s_strings"]) + 8
    behs = ["drop%d" % k for k in range(0, 14)] + ["trunc%d" % n for n in (0, 1, 4, 7, 8, 9, 8 + (vlen - 8) // 2, vlen - 1)] + \
           ["raw:" + bytes(range(200, 208)).hex(), "raw:" + vmd.frame(M["LOAD_EXEC"], b"", length=0xFFFFFFFF).hex(),
            "raw:" + vmd.frame(M["LOAD_EXEC"], b"", version=9).hex(), "raw:" + vmd.frame(0x7E, b"abc").hex(), "ping", "status"]
    jobs = [(mc, 2 if tier == "quick" else 3, 0, [good, victim + ":" + b], None, 1800) for b in behs]
    jobs += [(mc, 1, 0, [good, victim + ":" + b, mods["s_err_oob"] + ":drop2"], None, 1800) for b in behs[:14:3]]
    execs = 0
    for res in common.pimap(vmd.run_mc, jobs):
        if res["rc"] != 0 or res["stat"] is None:
            raise common.HarnessError("vmd_mc failed rc=%s specs=%s stderr=%s" % (res["rc"], res["specs"], res["stderr"][-800:]))
        if res["harness"]:
            raise common.HarnessError("vmd_mc harness problem: %s" % res["harness"][:3])
        execs += res["stat"]["executions"]
        if res["viol"]:
            c17.mc_violation(rep, None, res, "threads=%d" % res["stat"]["threads"])
    rep.count("evaluations", execs)
    rep.coverage["schedules_explored_with_a_misbehaving_peer"] = execs
    rep.coverage["distinct_nontrivial"] = nseq + 2 * len(names) + execs
    rep.coverage["rule"] = ("(A) all sequences of length <= %d over %d client behaviours on one live daemon, each followed by a probe (PING, two well-formed execs, STATUS settling at 1); "
                            "(B) each behaviour concurrent with a well-formed client; (C) every schedule with <= %d preemptions of a well-formed session next to a scripted misbehaving one (%d behaviours). "
                            "An element is non-trivial when it contains at least one complete client interaction; distinct by (sequence | behaviour | schedule)." % (L, len(names), 2 if tier == "quick" else 3, len(behs)))
    rep.sample({"sequence": list(seqs[len(seqs) // 2]), "probe": "PING, exec s_silent (exit 42), exec s_glob_b, STATUS"})
    rep.sample({"scheduler_job": ["s_glob_a", "s_strings:drop3"], "bound": 2})
    rep.assumptions += ["a client that sends part of a request and then keeps the connection open without ever continuing pins one session thread forever (the daemon has no read time-out); that is not a malformed message or a disconnect and is not enumerated",
                        "hostile modules: valid checksum, one byte away from a compiler-produced module in the code / function / string sections",
                        "a hostile module that the loader and verifier accept may loop forever; it pins its own session thread only (the sweep's probes do not require STATUS=1)",
                        "probe transactions use 3-5 s time-outs; STATUS may lag while abandoned sessions wind down and is polled for up to 5 s"]
    if not rep.violations and (nseq < 100 or execs < 1000 or len(outcomes) < 4):
        raise common.HarnessError("vacuous: %d sequences, %d schedules, %d outcome classes" % (nseq, execs, len(outcomes)))
    return rep.finish()


def replay(path):
    if os.path.exists(os.path.join(path, "job.txt")):
        r = c17.replay(path)
        return r
    asan = common.build_tree("asan")
    plain = common.build_tree("plain")
    work = os.path.join(common.scratch(), "c18r")
    mods = vmd.compile_corpus(plain, os.path.join(work, "mods"), extra_sources=sorted(glob.glob(os.path.join(common.VERIF, "vf/corpus_c18/*.nano"))))
    ctx = Ctx(mods)
    B = behaviours(ctx, "thorough")
    sq = open(os.path.join(path, "sequence.txt")).read().split()
    d = vmd.Daemon(asan, os.path.join(work, "d"), extra_env={"ASAN_OPTIONS": "detect_leaks=0"})
    try:
        solo = {}
        for n in ("s_silent", "s_glob_b"):
            o, e, c, wf, closed = vmd.transact(d, vmd.frame(M["LOAD_EXEC"], ctx.mods[n]))
            solo[n] = (o, e, c)
        for b in sq:
            if b in B:
                play(d, B[b])
        bad = Prober(ctx, solo).probe(d)
    finally:
        d.stop()
    print(bad or "daemon healthy after the sequence")
    if bad:
        print("VIOLATION property=C18 replay=%s" % path)
        return 1
    return 0
