"""Independent Python reader of the .nvm container layout (from src/nanoisa/nvm_format.h) used
to *name* the fields that C13 mutates.  It is not an oracle: the real loader decides."""
import struct

OPSIZE = {1: 1, 2: 2, 3: 4, 4: 4, 5: 8, 6: 8}  # OperandType enum: U8 U16 U32 I32 I64 F64
SEC_STRINGS, SEC_CODE, SEC_FUNCTIONS, SEC_DEBUG, SEC_IMPORTS = 2, 1, 3, 9, 8


def parse_optable(text):
    tab = {}
    for l in text.splitlines():
        p = l.split()
        if len(p) >= 2:
            tab[int(p[0])] = (p[1], [int(x) for x in p[2:]])
    return tab


class Layout:
    def __init__(self, data, optable):
        self.data = data
        self.fields = []       # (name, offset, width)
        self.instrs = []       # (fn_index, abs_offset, opcode, [(abs_off, optype)], length)
        self.sections = []
        self.functions = []
        h = struct.unpack_from("<4sIIIIIII", data, 0)
        for i, n in enumerate(["format_version", "flags", "entry_point", "section_count", "string_pool_offset", "string_pool_length"]):
            self.fields.append(("header." + n, 4 + 4 * i, 4))
        nsec = h[4]
        code_off = code_size = None
        for i in range(nsec):
            off = 32 + 12 * i
            t, o, s = struct.unpack_from("<III", data, off)
            self.sections.append((t, o, s))
            for j, n in enumerate(["type", "offset", "size"]):
                self.fields.append(("section[%d:%d].%s" % (i, t, n), off + 4 * j, 4))
            if t == SEC_CODE:
                code_off, code_size = o, s
        for (t, o, s) in self.sections:
            if t == SEC_STRINGS:
                pos, k = 0, 0
                while pos + 4 <= s:
                    ln = struct.unpack_from("<I", data, o + pos)[0]
                    self.fields.append(("string[%d].length" % k, o + pos, 4))
                    pos += 4 + ln
                    k += 1
            elif t == SEC_FUNCTIONS:
                pos, k = 0, 0
                while pos + 18 <= s:
                    name, ar, co, cl, lc, uc = struct.unpack_from("<IHIIHH", data, o + pos)
                    self.functions.append((co, cl))
                    for n, d, w in (("name_idx", 0, 4), ("arity", 4, 2), ("code_offset", 6, 4), ("code_length", 10, 4), ("local_count", 14, 2), ("upvalue_count", 16, 2)):
                        self.fields.append(("function[%d].%s" % (k, n), o + pos + d, w))
                    pos += 18
                    k += 1
            elif t == SEC_IMPORTS:
                pos, k = 0, 0
                while pos + 11 <= s:
                    pc = struct.unpack_from("<H", data, o + pos + 8)[0]
                    for n, d, w in (("module_name_idx", 0, 4), ("function_name_idx", 4, 4), ("param_count", 8, 2), ("return_type", 10, 1)):
                        self.fields.append(("import[%d].%s" % (k, n), o + pos + d, w))
                    for q in range(pc):
                        self.fields.append(("import[%d].param_type[%d]" % (k, q), o + pos + 11 + q, 1))
                    pos += 11 + pc
                    k += 1
            elif t == SEC_DEBUG:
                pos, k = 0, 0
                while pos + 8 <= s and k < 4:
                    self.fields.append(("debug[%d].bytecode_offset" % k, o + pos, 4))
                    pos += 8
                    k += 1
        self.code_off, self.code_size = code_off, code_size
        if code_off is not None:
            for fi, (co, cl) in enumerate(self.functions):
                pos = 0
                while pos < cl:
                    a = code_off + co + pos
                    op = data[a]
                    if op not in optable:
                        break
                    ln = 1
                    ops = []
                    for t in optable[op][1]:
                        ops.append((a + ln, t))
                        ln += OPSIZE[t]
                    if pos + ln > cl:
                        break
                    self.instrs.append((fi, a, op, ops, ln))
                    pos += ln


def le(v, w):
    return (v & ((1 << (8 * w)) - 1)).to_bytes(w, "little").hex()


def crc32(data):
    import zlib
    return zlib.crc32(data) & 0xFFFFFFFF


def build_image(strings, code, functions, imports=(), debug=(), flags=1, entry=0):
    """Raw .nvm image in the serializer's layout. functions: (name_idx, arity, off, len, locals, upvals);
    imports: (mod_idx, fn_idx, ret_tag, [param tags]); debug: (offset, line)."""
    secs = []
    if strings:
        secs.append((SEC_STRINGS, b"".join(struct.pack("<I", len(x)) + x for x in strings)))
    if code:
        secs.append((SEC_CODE, bytes(code)))
    if functions:
        secs.append((SEC_FUNCTIONS, b"".join(struct.pack("<IHIIHH", *f) for f in functions)))
    if debug:
        secs.append((SEC_DEBUG, b"".join(struct.pack("<II", *d) for d in debug)))
    if imports:
        secs.append((SEC_IMPORTS, b"".join(struct.pack("<IIHB", m, f, len(pt), r) + bytes(pt) for (m, f, r, pt) in imports)))
    off = 32 + 12 * len(secs)
    directory = b""
    body = b""
    spo = spl = 0
    for t, payload in secs:
        directory += struct.pack("<III", t, off, len(payload))
        if t == SEC_STRINGS:
            spo, spl = off, len(payload)
        body += payload
        off += len(payload)
    rest = directory + body
    hdr = b"NVM\x01" + struct.pack("<IIIIIII", 1, flags, entry, len(secs), spo, spl, crc32(rest))
    return hdr + rest
