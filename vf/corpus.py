"""Corpus helpers: hand-written programs under vf/corpus plus (later) enumerator batches."""
import glob
import os
import subprocess

from . import common


def hand_programs():
    return sorted(glob.glob(os.path.join(common.VERIF, "vf/corpus/*.nano")))


def emit_nvm(tree, src, out, timeout=30):
    """nano_virt --emit-nvm; returns True when the module was written."""
    rc, _o, _e = common.run([tree.exe("nano_virt"), src, "--emit-nvm", "-o", out], timeout=timeout, cwd=tree.root)
    return rc == 0 and os.path.exists(out)


def corpus_modules(tree, outdir, extra_sources=()):
    """Compile every corpus program with the tree's own nano_virt. Returns list of (src, nvm)."""
    os.makedirs(outdir, exist_ok=True)
    res = []
    for src in list(hand_programs()) + list(extra_sources):
        out = os.path.join(outdir, os.path.basename(src).replace(".nano", "") + ".nvm")
        if emit_nvm(tree, src, out):
            res.append((src, out))
        else:
            raise common.HarnessError("corpus program does not compile with nano_virt: " + src)
    return res


def _emit_one(args):
    exe, root, src, out = args
    rc, _o, _e = common.run([exe, src, "--emit-nvm", "-o", out], timeout=30, cwd=root)
    return (src, out) if (rc == 0 and os.path.exists(out)) else None


def repo_modules(tree, outdir, limit=None):
    """Every examples/language and tests/*.nano program of the tree that its own nano_virt
    compiles (supplementary corpus: programs that do not compile are skipped and counted)."""
    os.makedirs(outdir, exist_ok=True)
    srcs = sorted(glob.glob(os.path.join(tree.root, "examples/language/*.nano")) +
                  glob.glob(os.path.join(tree.root, "tests/*.nano")) +
                  glob.glob(os.path.join(tree.root, "examples/verified/*.nano")))
    if limit:
        srcs = srcs[:limit]
    jobs = []
    for i, s in enumerate(srcs):
        jobs.append((tree.exe("nano_virt"), tree.root, s, os.path.join(outdir, "r%03d_%s.nvm" % (i, os.path.basename(s)[:-5]))))
    res = common.pmap(_emit_one, jobs)
    ok = [r for r in res if r]
    return ok, len(srcs) - len(ok)
