#!/bin/bash
# usage: try_mutant.sh <patch.diff> <Cxx> [tier]
# Applies the patch to a scratch git worktree of /repo HEAD (never to /repo itself), runs the check against that
# worktree (VERIF_REPO) with evidence/replays redirected to a scratch directory (VERIF_OUT), removes both.
# Safe to run while other checks run against /repo.
set -u
patch=$(readlink -f "$1"); prop=$2; tier=${3:-quick}
id=$$
wt=/var/tmp/mutwt.$id; out=/var/tmp/mutout.$id
git -C /repo worktree add -q --detach $wt HEAD || exit 9
trap 'git -C /repo worktree remove --force $wt 2>/dev/null; rm -rf $out' EXIT
if ! git -C $wt apply "$patch"; then echo "PATCH DOES NOT APPLY"; exit 9; fi
mkdir -p $out
log=${TRY_LOG:-/var/tmp/try_mutant.$prop.$id.log}
( cd /verif && VERIF_MUTANT=1 VERIF_REPO=$wt VERIF_OUT=$out ./check $prop --tier $tier > $log 2>&1 ); rc=$?
grep -c "^VIOLATION" $log | sed 's/^/violations: /'
grep "^VIOLATION" $log | head -3 | cut -c1-250
tail -1 $log | cut -c1-300
echo "rc=$rc log=$log"
exit 0
