#!/bin/bash
# usage: try_mutant.sh <patch.diff> <Cxx> [tier]   -- applies patch to /repo, runs the check, reverts
set -u
patch=$1; prop=$2; tier=${3:-quick}
cd /repo || exit 9
if [ -n "$(git status --porcelain --untracked-files=no)" ]; then echo "repo dirty"; exit 9; fi
git apply "$patch" || { echo "PATCH DOES NOT APPLY"; exit 9; }
cd /verif && VERIF_MUTANT=1 ./check $prop --tier $tier > /tmp/try_mutant.$prop.log 2>&1; rc=$?
git -C /repo checkout -- .
grep -c "^VIOLATION" /tmp/try_mutant.$prop.log | sed 's/^/violations: /'
grep "^VIOLATION" /tmp/try_mutant.$prop.log | head -3 | cut -c1-250
tail -1 /tmp/try_mutant.$prop.log | cut -c1-300
echo "rc=$rc"
# replays created by mutant runs are not evidence for the unchanged tree
rm -rf /verif/replays
git -C /verif checkout -- evidence 2>/dev/null
exit 0
