#!/usr/bin/env python3
"""Regenerates /verif/MANIFEST.json from the table below (kept in one place so it stays valid)."""
import json, os, subprocess
HERE = os.path.dirname(os.path.dirname(os.path.abspath(__file__)))
ALL = ["C%02d" % i for i in range(1, 21)]
CHECKS = {
 "C11": dict(cat="model_checking", technique="exhaustive enumeration of the instruction space (256 opcode bytes x boundary operand product x every truncation) against an independent reference encoder, plus assemble∘disassemble on every corpus module",
             text="Every opcode byte, the full product of boundary operand patterns per slot and every truncation length are run through the real isa_encode/isa_decode and compared with an independent little-endian reference; the 162 undefined bytes (set taken from the isa.h enum, not the table under test) must be refused in 13 contexts; assemble(disassemble(m)) is compared function-by-function on ~220 compiler-produced modules. The space is finite and fully enumerated at both tiers.",
             note="asan+ubsan build of the tree; operand values outside the pattern pools and modules outside the corpus are not covered; clang sanitizers trusted", ref="DESIGN.md §4 C11"),
 "C12": dict(cat="fault_enumeration", technique="exhaustive fault enumeration on the real loader: every body bit flip, every burst <=Lmax bits (all patterns) and 4 pattern families up to 32 bits at every offset, every truncation, 256 tails, every magic/version bit; subset replayed through nano_vm",
             text="For each corpus .nvm file every enumerated damage is applied to an exact-size heap copy and given to the real nvm_deserialize (asan build) in the same process that first loaded the undamaged file; the loader must return NULL. The fault space per file is finite and completely enumerated (quick: Lmax=8, thorough: Lmax=12 and more files); ~400 damaged files per run also go through the real nano_vm binary, which must exit 1 with 'invalid .nvm format' and print nothing.",
             note="bursts longer than Lmax are covered by four complete pattern families, not all patterns (the property says 'sampled patterns'); header fields other than magic/version are outside the property", ref="DESIGN.md §4 C12"),
 "C10": dict(cat="model_checking", technique="exhaustive product of a structural module alphabet through the real nvm_serialize/nvm_deserialize with field-wise comparison, plus three-way differential execution (--run / nano_vm file / wrapper binary) of every corpus program",
             text="561,600 modules (the full product of the structural alphabet: string sets incl. empty/trailing-empty, function-entry profiles with boundary field values, import entries with 0-3 params, debug entries, code lengths around 4096, all flag values, entry points) are built through the nvm_* API and must survive serialize->deserialize field-by-field with an idempotent serializer; every compiler-produced module of the corpus (~225) must be a byte fixpoint of load->serialize; every hand/generated corpus program is run in-process, from its .nvm file and from its native wrapper and the three (stdout, exit) observations must be equal.",
             note="asan build for the codec part, plain build for the tools; exit statuses compared modulo 256; programs outside the corpus are not covered", ref="DESIGN.md §4 C10"),
 "C13": dict(cat="fault_enumeration", technique="deviation-bounded exhaustive enumeration of structure-aware mutations of real modules (every field / operand x boundary values, every opcode replacement, count-boundary and raw-prefix families, arithmetic operand matrix), each run through the real loader, verifier and fuel-limited VM under ASan/UBSan with fork+bisection",
             text="Each of ~87,000 (quick) well-checksummed hostile images is one deviation away from a compiler-produced module (or a member of the raw-prefix / table-count / arithmetic families) and is pushed through the real nvm_deserialize, nvm_verify and, when accepted and import-free, vm_execute under an instruction budget (hook H1) in an ASan+UBSan build; any sanitizer report, signal, timeout, or a decode/invalid-opcode error at an instruction boundary the verifier walked is a violation, attributed to a single element by bisection, replayed twice, and grouped by cause signature. thorough adds all pairs of operand deviations within a function.",
             note="boundary value pools, one deviation (thorough: two); modules with imports are loaded and verified only; malloc failure emulated for requests > 1 GiB; clang sanitizers trusted", ref="DESIGN.md §4 C13"),
 "C01": dict(cat="model_checking", technique="small-scope exhaustive enumeration of typed programs (expression trees, statement sequences, function/data/aliasing/module shapes) executed on both real backends with a differential oracle; batch bisection isolates single programs",
             text="Every program below the stated bounds (all typed expression trees of depth<=2 over small leaf pools, all statement sequences/nestings of the statement alphabet, function-value/recursion/scoping shapes, data and aliasing operation sequences, 7 multi-file module shapes, an exit-status family; ~6,400 programs quick, ~65,000 thorough) is compiled by the real nanoc + C compiler and run, and run by nano_virt --run; stdout bytes (cut per program between marker lines) and exit status must be equal. The enumeration is exhaustive within the bounds, nothing is sampled; NanoRef only filters programs that leave the defined domain.",
             note="bounded program size and value pools (small-scope hypothesis); floats compared not printed; no string escapes; gcc and the kernel trusted", ref="DESIGN.md §4 C01"),
 "C02": dict(cat="model_checking", technique="the same exhaustive program enumeration plus the full operator x boundary-operand matrix and the effect-order matrix, every engine (native, VM) in both notations judged against NanoRef, an independent executable transcription of the specification",
             text="For every enumerated program the reference interpreter NanoRef (written from SPECIFICATION.md 4-8: strict left-to-right, short-circuit, static scoping and block shadowing, for = while desugaring, 64-bit wrap, truncating division) computes the prescribed output; the native binary and the VM, each fed the prefix and the infix spelling, must print exactly that. All 13 binary operators x all ordered pairs of a 13-14 value boundary pool and every operator/call/literal with effectful operands are included. Disagreement of one engine is a violation; engines agreeing with each other but not with the reference is flagged for oracle triage.",
             note="NanoRef is trusted as the reading of the spec (its self-test replays the spec's own examples); x/0, x%0, INT64_MIN/-1 are outside the defined domain; the Coq relation is covered only where it coincides with the 64-bit spec", ref="DESIGN.md §4 C02"),
 "C07": dict(cat="model_checking", technique="exhaustive enumeration of operator pairs (both shapes x every leaf kind in every position), operator triples (all 5 shapes), unary placements and nesting/long-file families; byte comparison of the code the real compiler emits for the prefix and the infix spelling, plus NanoRef value check",
             text="~69,000 expressions: every ordered pair of the 13 binary operators in both association shapes with each of 7 leaf kinds (literal, variable, p.x, p.n.y, q.0, call, parenthesised prefix form) in every leaf position, every typed operator triple in all five tree shapes, unary -/not at every operand position, nesting to depth 400 and a 2,700-expression single file. Each is printed as fully parenthesised prefix form and as minimally parenthesised infix form per the stated rule, both are compiled by the real nano_virt --emit-nvm and the per-function code bytes must be identical; the prefix program is run and each value compared with NanoRef.",
             note="expressions sit in statement position ('let v: T = e'); a parenthesised infix expression starting with a unary operator is excluded because '(' + operator is the prefix form by definition; depth > 400 is C09's business", ref="DESIGN.md §4 C07"),
 "C08": dict(cat="model_checking", technique="exhaustive matrix (array lengths x boundary indices x access kinds x element kinds x program shapes x engines) executed on the real native binary, the real VM and the real compile-time evaluator, plus all (count,index) pairs for tuple/struct/union field opcodes via the assembler",
             text="168 programs (4 access kinds x 4 element kinds x 3 shapes x 4-10 lengths) take the index from the environment; each is run natively, on the VM and inside a shadow block with every out-of-range index of a 12-17 value boundary set (-1, n, n+1, 2n+1, INT64_MIN/MAX, 2^31, 2^32±, 2^32+k, 2^61+k ...) and with in-range controls: ~6,000 fault runs must exit non-zero without printing the sentinel that follows the access (SIGSEGV/SIGBUS count as touching memory outside the object), ~600 controls must succeed. 140 assembled modules request every (count, index) combination of TUPLE_GET/STRUCT_GET/STRUCT_SET/UNION_FIELD.",
             note="lengths up to 8 (thorough 17); the line printed before the access is not required; SIGABRT from the runtime assertion is the documented panic", ref="DESIGN.md §4 C08"),
}
NA_REASON = "check not built yet in this round (planned, see DESIGN.md §9); no claim is made"
def main():
    commits = subprocess.run(["git", "-C", "/repo", "log", "--format=%h %s", "--grep=^verif hook"], capture_output=True, text=True).stdout.strip().splitlines()
    m = {"version": 1,
         "setup_cmd": "python3 tools/setup_check.py",
         "hooks": {"guard": "NANOLANG_VERIF",
                   "enable": "checks rsync /repo's working tree to a scratch dir and run `make -f Makefile.gnu vm bin/nanoc_c CFLAGS='... -DNANOLANG_VERIF'` (vf/common.py build_tree)",
                   "baseline_off_cmd": "make -C /repo -f Makefile.gnu test-nanovirt",
                   "source_commits": [c.split()[0] for c in commits], "add_only": True},
         "engines": [{"name": "vf", "path": "vf/", "serves_properties": sorted(CHECKS),
                      "kind_free_text": "bounded-exhaustive enumeration drivers (Python) + C probes linked against the tree's own objects, forked with bisection so crashes are attributed to one element"}],
         "checks": [], "not_applicable": [],
         "notes": "Every check rebuilds /repo's working tree into a private scratch dir under ${VERIF_SCRATCH:-/var/tmp} and deletes it on exit. Known findings: known_findings.json."}
    for pid in ALL:
        if pid in CHECKS:
            c = CHECKS[pid]
            m["checks"].append({"property_id": pid, "quick_cmd": "./check %s --tier quick" % pid,
                                "thorough_cmd": "./check %s --tier thorough" % pid,
                                "evidence_file": "evidence/%s.json" % pid,
                                "replay_cmd_template": "./check %s --replay {path}" % pid, "engine": "vf",
                                "level_claimed": {"category": c["cat"], "text": c["text"], "design_ref": c["ref"]},
                                "level_note": c["note"], "technique": c["technique"]})
        else:
            m["not_applicable"].append({"property_id": pid, "reason": NA_REASON})
    with open(os.path.join(HERE, "MANIFEST.json"), "w") as f:
        json.dump(m, f, indent=1, ensure_ascii=False); f.write("\n")
if __name__ == "__main__":
    main()
