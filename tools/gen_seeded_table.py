#!/usr/bin/env python3
"""Rewrites the seeded-change table in DESIGN.md (between <!--SEEDED-TABLE--> and <!--/SEEDED-TABLE-->) from seeded/*/meta.json."""
import json
import os
import re

VERIF = os.path.dirname(os.path.dirname(os.path.abspath(__file__)))


def main():
    rows = []
    for n in sorted(os.listdir(os.path.join(VERIF, "seeded"))):
        d = os.path.join(VERIF, "seeded", n)
        mp = os.path.join(d, "meta.json")
        if not os.path.exists(mp):
            continue
        m = json.load(open(mp))
        notes = ""
        np_ = os.path.join(d, "NOTES.md")
        if os.path.exists(np_):
            for l in open(np_).read().splitlines():
                l = l.strip().lstrip("#").strip()
                if l:
                    notes = l
                    break
        notes = re.sub(r"^(C\d\d\s*[/-]?\s*)?(mutant|change)?\s*\d*\s*[-—:]*\s*", "", notes, flags=re.I)[:110]
        det = m.get("detected_by")
        if isinstance(det, dict):
            st = det.get("status", "?")
            fv = det.get("first_violation", "")
            fv = re.sub(r"^VIOLATION property=C\d\d\s*", "", fv)[:100]
            demo = det.get("demo_on_changed_tree", "")
            cell = st.replace("DETECTED by ./check ", "**caught** by `").replace(" --tier quick", " quick`") if st.startswith("DETECTED") else "**" + st + "**"
            np2 = os.path.join(d, "NEUTRALISED.md")
            if os.path.exists(np2):
                cell = "no longer applicable: " + open(np2).read().strip().replace("|", "/")
            elif "no longer manifests" in demo:
                cell += " (demo passes: neutralised by a later fix)"
            rows.append("| %s | %s | %s | %s |" % (n, notes.replace("|", "/"), cell, fv.replace("|", "/")))
        else:
            rows.append("| %s | %s | (not run yet) | |" % (n, notes.replace("|", "/")))
    table = ("Each seeded change was written by a fresh sub-agent that saw only the property text and a scratch worktree, was\n"
             "confirmed (applies, builds with -Werror, the 61/62 pinned tests pass, its demo fails on the changed tree and passes\n"
             "on the unchanged tree) and was then run against the property's check in a scratch worktree (`tools/run_seeded.py`).\n\n"
             "| change | what it does | result | first violation reported |\n|---|---|---|---|\n" + "\n".join(rows) + "\n")
    p = os.path.join(VERIF, "DESIGN.md")
    s = open(p).read()
    if "<!--/SEEDED-TABLE-->" in s:
        s = re.sub(r"<!--SEEDED-TABLE-->.*?<!--/SEEDED-TABLE-->", "<!--SEEDED-TABLE-->\n" + table + "<!--/SEEDED-TABLE-->", s, flags=re.S)
    else:
        s = s.replace("<!--SEEDED-TABLE-->", "<!--SEEDED-TABLE-->\n" + table + "<!--/SEEDED-TABLE-->")
    open(p, "w").write(s)
    print(len(rows), "rows")


if __name__ == "__main__":
    main()
