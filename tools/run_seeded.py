#!/usr/bin/env python3
"""Runs seeded changes against the checks.  For every /verif/seeded/<Cxx>-mN:
  1. scratch git worktree of /repo HEAD (never /repo itself), apply patch.rebased.diff if present else patch.diff
  2. build; run the 61-test baseline (must still pass); run demo.sh (must fail on the changed tree)
  3. run ./check <Cxx> --tier quick against the worktree (VERIF_REPO, VERIF_OUT redirected to scratch)
  4. record the outcome in meta.json ("detected_by") and print one table line
usage: run_seeded.py [name-prefix ...]      (e.g. C14 C17-m2; default: all)
"""
import json
import os
import re
import shutil
import subprocess
import sys

VERIF = os.path.dirname(os.path.dirname(os.path.abspath(__file__)))
REPO = "/repo"


def sh(cmd, cwd=None, timeout=3600, env=None):
    e = dict(os.environ)
    if env:
        e.update(env)
    try:
        r = subprocess.run(cmd, shell=True, cwd=cwd, capture_output=True, text=True, timeout=timeout, env=e)
        return r.returncode, r.stdout + r.stderr
    except subprocess.TimeoutExpired as ex:
        return 124, "timeout\n" + ((ex.stdout or b"").decode(errors="replace") if isinstance(ex.stdout, bytes) else (ex.stdout or ""))


def main():
    sel = sys.argv[1:]
    names = sorted(os.listdir(os.path.join(VERIF, "seeded")))
    if sel:
        names = [n for n in names if any(n.startswith(s) for s in sel)]
    head = sh("git -C %s rev-parse --short HEAD" % REPO)[1].strip()
    for n in names:
        d = os.path.join(VERIF, "seeded", n)
        prop = n.split("-")[0]
        patch = os.path.join(d, "patch.rebased.diff")
        if not os.path.exists(patch):
            patch = os.path.join(d, "patch.diff")
        wt = "/var/tmp/seedwt.%s.%d" % (n, os.getpid())
        out = "/var/tmp/seedout.%s.%d" % (n, os.getpid())
        sh("git -C %s worktree remove --force %s" % (REPO, wt))
        rc, o = sh("git -C %s worktree add -q --detach %s HEAD" % (REPO, wt))
        res = {"base_commit": head, "patch": os.path.basename(patch)}
        try:
            rc, o = sh("git apply %s" % patch, cwd=wt)
            if rc != 0:
                res["status"] = "patch does not apply to HEAD"
                continue
            rc, o = sh("make -f Makefile.gnu -j12 vm bin/nanoc_c", cwd=wt, timeout=900)
            if rc != 0:
                res["status"] = "does not build"
                continue
            rc, o = sh("make -f Makefile.gnu test-nanovirt 2>&1 | grep 'Results:'", cwd=wt, timeout=1800)
            res["baseline_tests"] = o.strip()
            if " 0 failed" not in o:
                res["status"] = "baseline tests fail with the change (not a valid seeded change)"
                continue
            if os.path.exists(os.path.join(d, "demo.sh")):
                rc, o = sh("bash ./demo.sh %s" % wt, cwd=d, timeout=900)
                res["demo_on_changed_tree"] = "fails (exit %d)" % rc if rc != 0 else "PASSES (change no longer manifests)"
            os.makedirs(out, exist_ok=True)
            rc, o = sh("./check %s --tier quick" % prop, cwd=VERIF, timeout=6000,
                       env={"VERIF_REPO": wt, "VERIF_OUT": out, "VERIF_MUTANT": "1", "VERIF_JOBS": os.environ.get("VERIF_JOBS", "10")})
            viol = [l for l in o.splitlines() if l.startswith("VIOLATION")]
            res["check_exit"] = rc
            res["violation_lines"] = len(viol)
            res["first_violation"] = re.sub(r"replay=\S+\s*#?\s*", "", viol[0])[:300] if viol else ""
            res["status"] = "DETECTED by ./check %s --tier quick" % prop if (rc == 1 and viol) else ("harness error" if rc == 2 else "MISSED")
        finally:
            sh("git -C %s worktree remove --force %s" % (REPO, wt))
            shutil.rmtree(out, ignore_errors=True)
            mp = os.path.join(d, "meta.json")
            meta = json.load(open(mp)) if os.path.exists(mp) else {"property": prop, "mutant": n.split("-")[1]}
            meta["detected_by"] = res
            json.dump(meta, open(mp, "w"), indent=1)
            print("%-8s %-70s %s | %s" % (n, res.get("status", "?"), res.get("demo_on_changed_tree", ""), res.get("first_violation", "")[:140]), flush=True)


if __name__ == "__main__":
    main()
