#!/usr/bin/env python3
"""setup_cmd: nothing is prebuilt (every check builds its probes against the tree it is checking);
this only verifies that the offline toolchain the checks need is present."""
import shutil, sys
missing = [t for t in ("cc", "clang", "make", "rsync", "python3") if not shutil.which(t)]
if missing:
    print("missing tools:", missing); sys.exit(1)
print("setup ok")
