#!/bin/bash
# usage: confirm_mutant.sh <Cxx> <mN> [<dest mK>]  -- confirms an agent-produced mutant ($MUT_ROOT/<Cxx>.out/<mN>, MUT_ROOT defaults to /tmp/mut) in a
# scratch worktree of /repo HEAD and files it under /verif/seeded/<Cxx>-<mK>/ (patch.diff, demo files, NOTES.md, meta.json)
set -u
prop=$1; m=$2; dest=${3:-$2}; src=${MUT_ROOT:-/tmp/mut}/$prop.out/$m
wt=/var/tmp/mw.$prop.$m
[ -f $src/patch.diff ] || { echo "no patch"; exit 9; }
git -C /repo worktree remove --force $wt 2>/dev/null
git -C /repo worktree add -q --detach $wt HEAD || exit 9
cd $wt
res_apply=ok; git apply $src/patch.diff || res_apply=FAIL
build() { make -f Makefile.gnu -j16 vm bin/nanoc_c >/tmp/mw.build.log 2>&1 && echo ok || echo FAIL; }
res_build_mut=$(build)
res_tests=$(make -f Makefile.gnu test-nanovirt 2>&1 | grep "Results:" )
demo_mut=()
for i in 1 2; do ( cd $src && timeout 600 bash ./demo.sh $wt >/tmp/mw.demo.log 2>&1 ); demo_mut+=($?); done
git checkout -q -- . ; git clean -fdq -e bin -e obj 2>/dev/null
res_build_clean=$(build)
demo_clean=()
for i in 1 2; do ( cd $src && timeout 600 bash ./demo.sh $wt >/tmp/mw.demo0.log 2>&1 ); demo_clean+=($?); done
cd /; git -C /repo worktree remove --force $wt
echo "apply=$res_apply build_mut=$res_build_mut tests='$res_tests' demo_mut=${demo_mut[*]} build_clean=$res_build_clean demo_clean=${demo_clean[*]}"
ok=1
[ "$res_apply" = ok ] && [ "$res_build_mut" = ok ] && [ "$res_build_clean" = ok ] || ok=0
echo "$res_tests" | grep -q " 0 failed" || ok=0
for r in "${demo_mut[@]}"; do [ "$r" != 0 ] || ok=0; done
for r in "${demo_clean[@]}"; do [ "$r" = 0 ] || ok=0; done
if [ $ok = 1 ]; then
  d=/verif/seeded/$prop-$dest; rm -rf $d; mkdir -p $d; cp -r $src/. $d/
  find $d -type f -size +300k -delete
  python3 - "$prop" "$dest" "$res_tests" "$(git -C /repo rev-parse --short HEAD)" <<'PY'
import json,sys,os
prop,m,tests,head=sys.argv[1:5]
d="/verif/seeded/%s-%s"%(prop,m)
notes=open(os.path.join(d,"NOTES.md")).read() if os.path.exists(os.path.join(d,"NOTES.md")) else ""
json.dump({"property":prop,"mutant":m,"origin":"independent sub-agent given only the property text and a scratch worktree",
 "needs_to_manifest":notes.strip()[:1500],
 "confirmed":{"base_commit":head,"patch_applies":True,"builds_with_Werror":True,"test_nanovirt":tests.strip(),
   "demo_on_mutant":"non-zero exit (2 runs)","demo_on_unchanged":"exit 0 (2 runs)","how":"tools/confirm_mutant.sh in a scratch git worktree of /repo HEAD (removed afterwards)"},
 "detected_by":"(filled in by tools/run_seeded.sh)"},open(os.path.join(d,"meta.json"),"w"),indent=1)
PY
  echo "CONFIRMED -> $d"
else echo "NOT CONFIRMED"; tail -5 /tmp/mw.demo.log; tail -5 /tmp/mw.demo0.log; fi
