import sys, os, collections
sys.path.insert(0, "/verif")
from vf import common, xfam, langrun
tier = sys.argv[1] if len(sys.argv) > 1 else "quick"
fams = sys.argv[2].split(",") if len(sys.argv) > 2 else None
tree = common.build_tree("plain")
lang = langrun.Lang(tree, os.path.join(common.scratch(), "xtry"))
lang.warm()
units = xfam.all_units(tier, fams)
print("units", len(units))
res = xfam.run_units(lang, units)
bad = collections.Counter()
shown = 0
for u in units:
    exp = xfam.expected_text(u)
    r = res[u["name"]]
    texts = {e: r[e] for e in r}
    oks = [v[1] for v in r.values() if v[0] == "ok"]
    problem = None
    for e, v in r.items():
        if v[0] != "ok":
            problem = "%s fails: %s" % (e, v[1][-200:].replace("\n", " | "))
        elif exp is not None and v[1] != exp:
            problem = "%s prints %r, expected %r" % (e, v[1][:120], exp[:120])
    if problem is None and exp is None and len(set(oks)) > 1:
        problem = "engines differ: " + " / ".join("%s=%r" % (e, v[1][:60]) for e, v in r.items())
    if problem:
        bad[u["name"].split("_")[0]] += 1
        if shown < int(os.environ.get("SHOW", "15")):
            shown += 1
            print("BAD", u["name"], u["what"], "::", problem[:400])
print("bad by family", dict(bad))
